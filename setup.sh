#!/bin/bash
# MANIFEST.setup_cmd: offline build + self-test of the framework.
set -e
cd "$(dirname "$0")"
export CARGO_NET_OFFLINE=true
T=${VERIF_SCRATCH:-/var/tmp}/coapv.setup.$$
trap 'rm -rf "$T"' EXIT
# differential test of the container model against std
( cd engine/verif_alloc && cargo test --offline --target-dir "$T/valloc" -q )
python3 -c "import json;json.load(open('MANIFEST.json'))"
./check --list > /dev/null
echo "setup ok"
