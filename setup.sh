#!/bin/bash
# MANIFEST.setup_cmd: offline build + self-test of the framework (no network, files on disk only).
set -e
cd "$(dirname "$0")"
export CARGO_NET_OFFLINE=true
T=${VERIF_SCRATCH:-/var/tmp}/coapv.setup.$$
trap 'rm -rf "$T"' EXIT
# differential test of the container models (heap list and inline list) against std
( cd engine/verif_alloc && cargo test --offline --target-dir "$T/valloc" -q && cargo test --offline --features inline_list --target-dir "$T/valloc" -q )
python3 -c "import json;json.load(open('MANIFEST.json'));json.load(open('known_findings.json'))"
./check --list > /dev/null
mkdir -p evidence replays logs
echo "setup ok"
