// Harnesses woven into src/response.rs (C07 new(), C19 status accessors).
use crate::{CoapOption, CoapRequest, Header, HeaderRaw};
use core::convert::TryFrom;

pub(crate) fn any_request_packet() -> (Packet, u8, u8, u16, [u8; 8], usize) {
    any_request_packet_opt(true)
}

pub(crate) fn any_request_packet_opt(with_option_and_payload: bool) -> (Packet, u8, u8, u16, [u8; 8], usize) {
    let b0: u8 = kani::any();
    let code: u8 = kani::any();
    let id: u16 = kani::any();
    let raw_bytes = [b0, code, (id >> 8) as u8, id as u8];
    let raw = match HeaderRaw::try_from(&raw_bytes[..]) {
        Ok(r) => r,
        Err(_) => unreachable!(),
    };
    let mut p = Packet::new();
    p.header = Header::from_raw(&raw);
    let tok: [u8; 8] = kani::any();
    let tl: usize = kani::any();
    kani::assume(tl <= 8);
    p.set_token(tok[..tl].to_vec());
    if with_option_and_payload {
        let n: u16 = kani::any();
        let ov: u8 = kani::any();
        p.add_option(CoapOption::from(n), vec![ov]);
        let pay: u8 = kani::any();
        p.payload = vec![pay];
    }
    (p, b0, code, id, tok, tl)
}

//@ props=C07 tier=quick timeout=900 mem=4
//@ functions=CoapResponse::new, CoapRequest::from_packet, Packet::set_token, Header::set_version, Header::set_type
//@ bounds=first header byte: all 256 (4 versions x 4 types x any TKL nibble); code: all 256; message id: all 65536; token length 0..8 with symbolic bytes; one option with symbolic number and value; one payload byte
//@ what=response prepared iff CON/NON; ACK for CON, NON for NON; version 1; same message id; same token byte for byte; 2.05; no options; empty payload; from_packet wires message/response/source
#[kani::proof]
#[kani::unwind(6)]
#[kani::stub(core::fmt::write, crate::verif_harness::stub_write)]
fn c07_new_response() {
    let (p, b0, code, id, tok, tl) = any_request_packet();
    let tn = (b0 >> 4) & 3;
    let r = CoapResponse::new(&p);
    match &r {
        None => assert!(tn >= 2, "C07: a response is prepared for every CON and NON request"),
        Some(resp) => {
            assert!(tn <= 1, "C07: no response is prepared for ACK and RST");
            let m = &resp.message;
            if tn == 0 {
                assert!(m.header.get_type() == MessageType::Acknowledgement, "C07: CON is answered with ACK");
            } else {
                assert!(m.header.get_type() == MessageType::NonConfirmable, "C07: NON is answered with NON");
            }
            assert!(m.header.get_version() == 1, "C07: response has version 1");
            assert!(m.header.message_id == id, "C07: response carries the request's message id");
            assert!(m.header.get_token_length() as usize == tl, "C07: response TKL = request token length");
            assert!(m.get_token().len() == tl, "C07: response token length");
            let i: usize = kani::any();
            if i < tl {
                assert!(m.get_token()[i] == tok[i], "C07: response token equals the request token byte for byte");
            }
            assert!(m.header.code == MessageClass::Response(Status::Content), "C07: default code 2.05");
            assert!(m.options().next().is_none(), "C07: response starts without options");
            assert!(m.payload.is_empty(), "C07: the request body is not echoed");
            kani::cover!(tl == 8, "eight-byte token");
            kani::cover!(tn == 1 && (b0 >> 6) == 3, "NON request with version 3");
        }
    }
    kani::cover!(tn == 3, "RST request");
    // from_packet wires the same things
    let ep: u8 = kani::any();
    let req = CoapRequest::from_packet(p, ep);
    assert!(req.source == Some(ep), "C07: from_packet records the source");
    assert!(req.response.is_some() == (tn <= 1), "C07: from_packet prepares a response iff CON/NON");
    assert!(req.message.header.message_id == id && u8::from(req.message.header.code) == code);
    if let Some(resp) = &req.response {
        assert!(resp.message.header.message_id == id, "C07: from_packet response carries the message id");
        assert!(resp.message.get_token().len() == tl);
        let i: usize = kani::any();
        if i < tl {
            assert!(resp.message.get_token()[i] == tok[i], "C07: from_packet response carries the token");
        }
    }
    core::mem::forget(req);
    core::mem::forget(r);
}

/// registry of response codes (see header.rs harness): status name <-> byte
fn ref_status_byte(s: Status) -> u8 {
    match s {
        Status::Created => 0x41,
        Status::Deleted => 0x42,
        Status::Valid => 0x43,
        Status::Changed => 0x44,
        Status::Content => 0x45,
        Status::Continue => 0x5F,
        Status::BadRequest => 0x80,
        Status::Unauthorized => 0x81,
        Status::BadOption => 0x82,
        Status::Forbidden => 0x83,
        Status::NotFound => 0x84,
        Status::MethodNotAllowed => 0x85,
        Status::NotAcceptable => 0x86,
        Status::RequestEntityIncomplete => 0x88,
        Status::Conflict => 0x89,
        Status::PreconditionFailed => 0x8C,
        Status::RequestEntityTooLarge => 0x8D,
        Status::UnsupportedContentFormat => 0x8F,
        Status::UnprocessableEntity => 0x96,
        Status::TooManyRequests => 0x9D,
        Status::InternalServerError => 0xA0,
        Status::NotImplemented => 0xA1,
        Status::BadGateway => 0xA2,
        Status::ServiceUnavailable => 0xA3,
        Status::GatewayTimeout => 0xA4,
        Status::ProxyingNotSupported => 0xA5,
        Status::HopLimitReached => 0xA8,
        Status::UnKnown => 0xFF,
    }
}

//@ props=C19 tier=quick timeout=600 model=0 mem=4
//@ functions=CoapResponse::get_status, CoapResponse::set_status
//@ bounds=code byte: all 256 values; set_status over every status the code byte can name
//@ what=get_status names exactly the status whose registry byte is the raw code, UnKnown for every other byte; set_status stores the registry byte and get_status reads the same status back
#[kani::proof]
#[kani::stub(core::fmt::write, crate::verif_harness::stub_write)]
fn c19_status_accessors() {
    let n: u8 = kani::any();
    let mut resp = CoapResponse { message: Packet::new() };
    resp.message.header.code = MessageClass::from(n);
    let s = *resp.get_status();
    match MessageClass::from(n) {
        MessageClass::Response(named) => {
            assert!(s == named, "C19: get_status returns the status the raw code names");
            assert!(ref_status_byte(s) == n, "C19: status name matches the registry byte");
            // setter then getter, raw code and encoded byte
            let mut r2 = CoapResponse { message: Packet::new() };
            r2.set_status(named);
            assert!(u8::from(r2.message.header.code) == n, "C19: set_status stores the registry byte");
            assert!(*r2.get_status() == named, "C19: set_status then get_status");
            kani::cover!(n == 0x5F, "2.31 Continue");
            kani::cover!(n == 0xA8, "5.08 Hop Limit Reached");
            kani::cover!(n == 0x45, "2.05 Content");
        }
        _ => {
            assert!(s == Status::UnKnown, "C19: a code that names no status surfaces as UnKnown");
            kani::cover!(n == 0x01, "a request code");
        }
    }
}
