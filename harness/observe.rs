// Harnesses woven into src/observe.rs (C14 registry structure, C15 accounting).
use crate::CoapOption;

#[derive(Clone, PartialEq)]
pub(crate) struct Ep(pub u8);
impl core::fmt::Display for Ep {
    fn fmt(&self, _f: &mut core::fmt::Formatter<'_>) -> core::fmt::Result {
        Ok(())
    }
}

/// Snapshot of one observer (fields compared after the step).
#[derive(Clone, Copy)]
struct Snap {
    ep: u8,
    tl: usize,
    t0: u8,
    count: u16,
    has_id: bool,
    id: u16,
}

fn any_observer() -> (Observer<Ep>, Snap) {
    let tl: usize = kani::any();
    kani::assume(tl <= 1);
    let t0: u8 = kani::any();
    let ep: u8 = kani::any();
    // reachable counts never exceed 255 (a count above the limit is dropped by the round that produced it)
    let count: u8 = kani::any();
    let has_id: bool = kani::any();
    let id: u16 = kani::any();
    let o = Observer {
        endpoint: Ep(ep),
        token: if tl == 1 { vec![t0] } else { Vec::new() },
        unacknowledged_messages: count.into(),
        message_id: if has_id { Some(id) } else { None },
    };
    (o, Snap { ep, tl, t0, count: count as u16, has_id, id })
}

fn same(o: &Observer<Ep>, s: &Snap) -> bool {
    o.endpoint.0 == s.ep
        && o.token.len() == s.tl
        && (s.tl == 0 || o.token[0] == s.t0)
        && o.unacknowledged_messages as u16 == s.count
        && o.message_id.is_some() == s.has_id
        && (!s.has_id || o.message_id == Some(s.id))
}

/// Arbitrary valid registry: resource "" with two observers of distinct endpoints, resource "b"
/// (the bystander) with one. Distinct endpoints per resource is the invariant every step
/// re-establishes (asserted by the step harnesses).
fn any_subject() -> (Subject<Ep>, [Snap; 3], u32, u32) {
    let mut s: Subject<Ep> = Subject::default();
    let (o1, s1) = any_observer();
    let (o2, s2) = any_observer();
    kani::assume(s1.ep != s2.ep);
    let (o3, s3) = any_observer();
    let q1: u32 = kani::any();
    let q2: u32 = kani::any();
    s.resources.insert(String::new(), Resource { observers: vec![o1, o2], sequence: q1 });
    s.resources.insert(String::from("b"), Resource { observers: vec![o3], sequence: q2 });
    s.unacknowledged_limit = kani::any();
    (s, [s1, s2, s3], q1, q2)
}

fn bystander_unchanged(s: &Subject<Ep>, s3: &Snap, q2: u32) {
    match s.get_resource("b") {
        Some(r) => {
            assert!(r.sequence == q2, "C14: another resource's sequence is untouched");
            assert!(r.observers.len() == 1 && same(&r.observers[0], s3), "C14: another resource's observers are untouched");
        }
        None => assert!(false, "C14: another resource disappeared"),
    }
}

fn request(ep: u8, tl: usize, t0: u8, id: u16) -> CoapRequest<Ep> {
    let mut req: CoapRequest<Ep> = CoapRequest::new();
    req.source = Some(Ep(ep));
    req.message.set_token(if tl == 1 { vec![t0] } else { Vec::new() });
    req.message.header.message_id = id;
    req
}

//@ props=C14,C15 tier=quick timeout=900 mem=4
//@ functions=Subject::register, CoapRequest::get_path (empty path), Subject::get_resource
//@ bounds=pre-state: resource "" with 2 observers (distinct symbolic endpoints, token 0..1 byte, any counter, any pending id), bystander resource "b" with 1 observer, symbolic sequences and limit; request: any endpoint, token 0..1 byte
//@ what=same endpoint => replaced in place (new token, count 0, no pending id), order kept; new endpoint => appended last; at most one observer per endpoint afterwards; sequence and bystander untouched
//@ assumes=resource map is the fixed-capacity array model; the request path is the empty path (Uri-Path -> key mapping is checked in C19 for concrete paths)
#[kani::proof]
#[kani::unwind(6)]
#[kani::stub(core::fmt::write, crate::verif_harness::stub_write)]
fn c14_register() {
    let (mut s, [s1, s2, s3], q1, q2) = any_subject();
    let e: u8 = kani::any();
    let tl: usize = kani::any();
    kani::assume(tl <= 1);
    let t0: u8 = kani::any();
    let req = request(e, tl, t0, kani::any());
    s.register(&req);
    let r = match s.get_resource("") {
        Some(r) => r,
        None => { assert!(false, "C14: registered resource exists"); return; }
    };
    assert!(r.sequence == q1, "C14: registering does not change the sequence");
    let fresh = Snap { ep: e, tl, t0, count: 0, has_id: false, id: 0 };
    if e == s1.ep {
        assert!(r.observers.len() == 2, "C14: re-registering does not add an observer");
        assert!(same(&r.observers[0], &fresh), "C14: re-registering replaces token and clears the counters in place");
        assert!(same(&r.observers[1], &s2), "C14: the other observer is untouched");
        kani::cover!(true, "replace first");
    } else if e == s2.ep {
        assert!(r.observers.len() == 2, "C14: re-registering does not add an observer");
        assert!(same(&r.observers[0], &s1), "C14: the other observer is untouched");
        assert!(same(&r.observers[1], &fresh), "C14: re-registering replaces token and clears the counters in place");
        kani::cover!(true, "replace second");
    } else {
        assert!(r.observers.len() == 3, "C14: a new endpoint is added");
        assert!(same(&r.observers[0], &s1) && same(&r.observers[1], &s2), "C14: existing observers keep their order");
        assert!(same(&r.observers[2], &fresh), "C14: a new endpoint is appended after the existing ones");
        kani::cover!(true, "append");
    }
    // invariant re-established
    let n = r.observers.len();
    assert!(r.observers[0].endpoint.0 != r.observers[1].endpoint.0, "C14: one observer per endpoint");
    if n == 3 {
        assert!(r.observers[2].endpoint.0 != r.observers[0].endpoint.0 && r.observers[2].endpoint.0 != r.observers[1].endpoint.0,
            "C14: one observer per endpoint");
    }
    bystander_unchanged(&s, &s3, q2);
    core::mem::forget(s);
    core::mem::forget(req);
}

//@ props=C14 tier=quick timeout=900 mem=7
//@ functions=Subject::register (new resource)
//@ bounds=pre-state: only the bystander resource "b"; request on the empty path, any endpoint, token 0..1 byte
//@ what=registering on an unobserved path creates that resource with exactly this observer, sequence 0; the bystander is untouched
#[kani::proof]
#[kani::unwind(6)]
#[kani::stub(core::fmt::write, crate::verif_harness::stub_write)]
fn c14_register_new_resource() {
    let mut s: Subject<Ep> = Subject::default();
    let (o3, s3) = any_observer();
    let q2: u32 = kani::any();
    s.resources.insert(String::from("b"), Resource { observers: vec![o3], sequence: q2 });
    let e: u8 = kani::any();
    let tl: usize = kani::any();
    kani::assume(tl <= 1);
    let t0: u8 = kani::any();
    let req = request(e, tl, t0, kani::any());
    s.register(&req);
    match s.get_resource("") {
        Some(r) => {
            assert!(r.sequence == 0, "C14: a new resource starts at sequence 0");
            assert!(r.observers.len() == 1, "C14: a new resource has exactly the registering observer");
            assert!(same(&r.observers[0], &Snap { ep: e, tl, t0, count: 0, has_id: false, id: 0 }));
            kani::cover!(tl == 1, "one-byte token");
            kani::cover!(tl == 0, "empty token");
        }
        None => assert!(false, "C14: registering creates the resource"),
    }
    bystander_unchanged(&s, &s3, q2);
    core::mem::forget(s);
    core::mem::forget(req);
}

//@ props=C14 tier=quick timeout=900 mem=4
//@ functions=Subject::deregister
//@ bounds=pre-state as c14_register; request: any endpoint, token 0..1 byte
//@ what=removes exactly the observer whose endpoint and token both match, nothing else; order of the survivors kept; bystander untouched
#[kani::proof]
#[kani::unwind(6)]
#[kani::stub(core::fmt::write, crate::verif_harness::stub_write)]
fn c14_deregister() {
    let (mut s, [s1, s2, s3], q1, q2) = any_subject();
    let e: u8 = kani::any();
    let tl: usize = kani::any();
    kani::assume(tl <= 1);
    let t0: u8 = kani::any();
    let req = request(e, tl, t0, kani::any());
    s.deregister(&req);
    let r = match s.get_resource("") {
        Some(r) => r,
        None => { assert!(false, "C14: deregistering keeps the resource entry"); return; }
    };
    assert!(r.sequence == q1, "C14: deregistering does not change the sequence");
    let m1 = e == s1.ep && tl == s1.tl && (tl == 0 || t0 == s1.t0);
    let m2 = e == s2.ep && tl == s2.tl && (tl == 0 || t0 == s2.t0);
    if m1 {
        assert!(r.observers.len() == 1 && same(&r.observers[0], &s2), "C14: exactly the matching observer is removed");
        kani::cover!(true, "removed first");
    } else if m2 {
        assert!(r.observers.len() == 1 && same(&r.observers[0], &s1), "C14: exactly the matching observer is removed");
        kani::cover!(true, "removed second");
    } else {
        assert!(r.observers.len() == 2 && same(&r.observers[0], &s1) && same(&r.observers[1], &s2),
            "C14: without an endpoint-and-token match nothing is removed");
        kani::cover!(e == s1.ep, "same endpoint, other token");
    }
    bystander_unchanged(&s, &s3, q2);
    core::mem::forget(s);
    core::mem::forget(req);
}

//@ props=C14 tier=quick timeout=900 mem=10 cap=2 model=0
//@ functions=Subject::resource_changed (unobserved path)
//@ bounds=pre-state: one resource "b" with 1 observer (symbolic endpoint, token 0..1 byte, counter, pending id, sequence), symbolic limit; round for the path "zz" that is not present; any message id, both confirmable flags
//@ what=a notification round for an unobserved path creates nothing and changes nothing
//@ assumes=runs on std's real BTreeMap (the array model made this lookup miss symbolic for CBMC: 26 M variables, out of memory)
//@ outside=more than one other resource
#[kani::proof]
#[kani::unwind(6)]
fn c14_unobserved_path() {
    let mut s: Subject<Ep> = Subject::default();
    let (o3, s3) = any_observer();
    let q2: u32 = kani::any();
    s.resources.insert(String::from("b"), Resource { observers: vec![o3], sequence: q2 });
    s.unacknowledged_limit = kani::any();
    s.resource_changed("zz", kani::any(), kani::any());
    assert!(s.get_resource("zz").is_none(), "C14: a round for an unobserved path creates nothing");
    assert!(s.resources.len() == 1, "C14: a round for an unobserved path creates nothing");
    bystander_unchanged(&s, &s3, q2);
    kani::cover!(s3.count == 255, "counter at its maximum");
    kani::cover!(s3.tl == 1, "observer with a token");
    core::mem::forget(s);
}

//@ props=C15,C14 tier=quick timeout=900 mem=4
//@ functions=Subject::resource_changed, Subject::set_unacknowledged_limit
//@ bounds=pre-state as c14_register with any counters 0..255 and any limit 0..255; any message id; both confirmable flags; sequence < u32::MAX
//@ what=sequence + 1; counters + 1 iff confirmable; observer kept iff its new count (computed without wrap-around) <= limit; survivors keep order, token, endpoint and get the round's message id; no overflow or panic for any limit; bystander untouched
//@ outside=2^32 rounds on one resource (sequence wrap)
#[kani::proof]
#[kani::unwind(6)]
#[kani::stub(core::fmt::write, crate::verif_harness::stub_write)]
fn c15_round() {
    let (mut s, [s1, s2, s3], q1, q2) = any_subject();
    kani::assume(q1 < u32::MAX);
    let limit: u8 = kani::any();
    s.set_unacknowledged_limit(limit);
    let id: u16 = kani::any();
    let conf: bool = kani::any();
    s.resource_changed("", id, conf);
    let r = match s.get_resource("") {
        Some(r) => r,
        None => { assert!(false); return; }
    };
    assert!(r.sequence == q1 + 1, "C15: a round increases the sequence by exactly one");
    let n1 = s1.count + conf as u16;
    let n2 = s2.count + conf as u16;
    let k1 = n1 <= limit as u16;
    let k2 = n2 <= limit as u16;
    let e1 = Snap { count: n1, has_id: true, id, ..s1 };
    let e2 = Snap { count: n2, has_id: true, id, ..s2 };
    match (k1, k2) {
        (true, true) => {
            assert!(r.observers.len() == 2 && same(&r.observers[0], &e1) && same(&r.observers[1], &e2),
                "C15: observers within the limit are kept, in order, with count + 1 iff confirmable and the round's message id");
            kani::cover!(conf && n1 == limit as u16, "kept exactly at the limit");
        }
        (true, false) => {
            assert!(r.observers.len() == 1 && same(&r.observers[0], &e1), "C15: exactly the observers past the limit are dropped");
            kani::cover!(true, "second dropped");
        }
        (false, true) => {
            assert!(r.observers.len() == 1 && same(&r.observers[0], &e2), "C15: exactly the observers past the limit are dropped");
            kani::cover!(limit == 255, "dropped at limit 255");
        }
        (false, false) => {
            assert!(r.observers.is_empty(), "C15: exactly the observers past the limit are dropped");
            kani::cover!(limit == 0 && conf, "limit 0: first unacknowledged confirmable round drops");
        }
    }
    kani::cover!(!conf && k1 && k2, "non-confirmable round");
    bystander_unchanged(&s, &s3, q2);
    core::mem::forget(s);
}

//@ props=C15 tier=quick timeout=900 mem=4
//@ functions=Subject::acknowledge
//@ bounds=pre-state as c14_register; acknowledgement: any endpoint, any message id
//@ what=exactly the observers (in every resource) whose endpoint matches and whose pending id equals the acknowledged id are reset (count 0, no pending id); everything else unchanged
#[kani::proof]
#[kani::unwind(6)]
#[kani::stub(core::fmt::write, crate::verif_harness::stub_write)]
fn c15_acknowledge() {
    let (mut s, [s1, s2, s3], q1, q2) = any_subject();
    let e: u8 = kani::any();
    let id: u16 = kani::any();
    let req = request(e, 0, 0, id);
    s.acknowledge(&req);
    let hit = |x: &Snap| x.ep == e && x.has_id && x.id == id;
    let exp = |x: &Snap| if hit(x) { Snap { count: 0, has_id: false, ..*x } } else { *x };
    match s.get_resource("") {
        Some(r) => {
            assert!(r.sequence == q1, "C15: an acknowledgement does not change the sequence");
            assert!(r.observers.len() == 2, "C15: an acknowledgement removes nobody");
            assert!(same(&r.observers[0], &exp(&s1)), "C15: reset iff endpoint and pending message id match (first observer)");
            assert!(same(&r.observers[1], &exp(&s2)), "C15: reset iff endpoint and pending message id match (second observer)");
        }
        None => assert!(false),
    }
    match s.get_resource("b") {
        Some(r) => {
            assert!(r.sequence == q2 && r.observers.len() == 1);
            assert!(same(&r.observers[0], &exp(&s3)), "C15: reset iff endpoint and pending message id match (other resource)");
        }
        None => assert!(false),
    }
    kani::cover!(hit(&s1) && s1.count > 0, "first observer acknowledged");
    kani::cover!(hit(&s3) && hit(&s2), "same endpoint acknowledged in two resources");
    kani::cover!(s1.ep == e && s1.has_id && s1.id != id, "right endpoint, wrong message id");
    kani::cover!(s1.ep != e && s1.has_id && s1.id == id, "wrong endpoint, right message id");
    core::mem::forget(s);
    core::mem::forget(req);
}

//@ props=C15 tier=quick timeout=900 mem=4
//@ functions=create_notification, Packet::set_observe_value, Packet::set_token, option_from_uint
//@ bounds=message id: all u16; token 0..8 symbolic bytes; sequence: every u32; payload 0..2 symbolic bytes; both types
//@ what=notification carries the given token, message id, type (CON/NON), 2.05, payload, version 1, and exactly one Observe value = shortest big-endian form of the sequence
#[kani::proof]
#[kani::unwind(6)]
#[kani::stub(core::fmt::write, crate::verif_harness::stub_write)]
fn c15_notification() {
    let id: u16 = kani::any();
    let tok: [u8; 8] = kani::any();
    let tl: usize = kani::any();
    kani::assume(tl <= 8);
    let seq: u32 = kani::any();
    let pay: [u8; 2] = kani::any();
    let pl: usize = kani::any();
    kani::assume(pl <= 2);
    let conf: bool = kani::any();
    let p = create_notification(id, tok[..tl].to_vec(), seq, pay[..pl].to_vec(), conf);
    assert!(p.header.get_version() == 1);
    assert!(p.header.message_id == id, "C15: notification message id");
    assert!(p.header.get_type() == if conf { MessageType::Confirmable } else { MessageType::NonConfirmable }, "C15: notification type");
    assert!(p.header.code == MessageClass::Response(crate::ResponseType::Content), "C15: notification is 2.05");
    assert!(p.get_token().len() == tl && p.header.get_token_length() as usize == tl, "C15: notification token length");
    let i: usize = kani::any();
    if i < tl {
        assert!(p.get_token()[i] == tok[i], "C15: notification carries the observer's token");
    }
    assert!(p.payload.len() == pl);
    let j: usize = kani::any();
    if j < pl {
        assert!(p.payload[j] == pay[j], "C15: notification payload");
    }
    let (exp, n) = crate::verif_harness::ref_uint(seq as u64);
    match p.get_option(CoapOption::Observe) {
        Some(list) => {
            assert!(list.len() == 1, "C15: exactly one Observe value");
            let v = list.front().unwrap();
            assert!(v.len() == n, "C15: Observe value is the shortest form of the sequence");
            let k: usize = kani::any();
            if k < n {
                assert!(v[k] == exp[k], "C15: Observe value is the sequence big-endian");
            }
        }
        None => assert!(false, "C15: notification has an Observe option"),
    }
    assert!(p.get_observe_value() == Some(Ok(seq)), "C15: sequence reads back");
    kani::cover!(n == 3 && tl == 8, "three-byte sequence, eight-byte token");
    kani::cover!(seq == 0, "sequence 0");
    core::mem::forget(p);
}
