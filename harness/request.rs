// Harnesses woven into src/request.rs (C07 apply_from_error, C19 method / observe accessors).
use crate::{Header, HeaderRaw, MessageType, ResponseType};
use crate::option_value::OptionValueU16;
use crate::verif_harness::VerifMapExt;
use alloc::collections::LinkedList;

macro_rules! c07_apply_error {
    ($name:ident, $had_cf:expr) => {
#[kani::proof]
#[kani::unwind(6)]
#[kani::stub(core::fmt::write, crate::verif_harness::stub_write)]
fn $name() {
    // request: any first byte / code / id, two symbolic token bytes (the length-generic token copy is c07_new_response's job)
    let b0: u8 = kani::any();
    let id: u16 = kani::any();
    let raw_bytes = [b0, kani::any(), (id >> 8) as u8, id as u8];
    let raw = match HeaderRaw::try_from(&raw_bytes[..]) { Ok(r) => r, Err(_) => unreachable!() };
    let mut p = Packet::new();
    p.header = Header::from_raw(&raw);
    let tok: [u8; 2] = kani::any();
    let tl = 2usize;
    p.set_token(tok.to_vec());
    let tn = (b0 >> 4) & 3;
    let mut req = CoapRequest::from_packet(p, 7u8);
    // application may already have touched the response
    // concrete per harness: a symbolic choice makes the shape of the option map symbolic (out of memory)
    let had_cf: bool = $had_cf;
    let old_cf: [u8; 2] = kani::any();
    if let Some(r) = req.response.as_mut() {
        if had_cf {
            r.message.add_option(CoapOption::ContentFormat, old_cf.to_vec());
        }
        r.message.payload = vec![kani::any()];
    }
    let type_before = req.response.as_ref().map(|r| r.message.header.get_type());
    // error
    let cb: u8 = kani::any();
    let which: u8 = kani::any();
    let code: Option<ResponseType> = match which % 3 {
        0 => None,
        1 => Some(ResponseType::UnKnown),
        _ => match MessageClass::from(cb) {
            MessageClass::Response(r) => Some(r),
            _ => Some(ResponseType::NotFound),
        },
    };
    let mb: [u8; 3] = kani::any();
    let ml: usize = kani::any();
    kani::assume(ml <= 3);
    kani::assume(mb[0] < 0x80 && mb[1] < 0x80 && mb[2] < 0x80);
    let message = unsafe { String::from_utf8_unchecked(mb[..ml].to_vec()) };
    let err = HandlingError { code, message };
    let applied = req.apply_from_error(err);
    assert!(applied == (tn <= 1 && code.is_some()), "C07: apply_from_error succeeds iff there is a response and a code");
    if let Some(r) = req.response.as_ref() {
        let m = &r.message;
        assert!(m.header.message_id == id, "C07: error reply keeps the message id");
        assert!(m.get_token().len() == tl, "C07: error reply keeps the token length");
        let i: usize = kani::any();
        if i < tl {
            assert!(m.get_token()[i] == tok[i], "C07: error reply keeps the token");
        }
        assert!(Some(m.header.get_type()) == type_before, "C07: error reply keeps the type");
        assert!(m.header.get_version() == 1, "C07: error reply keeps version 1");
        if applied {
            assert!(m.header.code == MessageClass::Response(code.unwrap()), "C07: error reply carries the error's code");
            assert!(m.payload.len() == ml, "C07: error reply payload is the diagnostic message");
            let j: usize = kani::any();
            if j < ml {
                assert!(m.payload[j] == mb[j], "C07: error reply payload bytes");
            }
            if had_cf {
                // raw view (text/plain = 0 is the empty option value); reading it back through get_content_format()
                // clones a zero-capacity Vec, which CBMC could not afford next to the cleared older value
                match m.get_option(CoapOption::ContentFormat) {
                    Some(list) => assert!(list.len() == 1 && list.front().unwrap().is_empty(),
                        "C07/C19: error reply is text/plain whatever content format the response had before"),
                    None => assert!(false, "C07: error reply has a content format"),
                }
            } else {
                assert!(m.get_content_format() == Some(ContentFormat::TextPlain), "C07: error reply is text/plain");
            }
            kani::cover!(ml == 3, "three-byte message");
        } else {
            assert!(m.header.code == MessageClass::Response(ResponseType::Content), "C07: a refused error leaves the code alone");
            assert!(m.payload.len() == 1, "C07: a refused error leaves the payload alone");
        }
    }
    kani::cover!(tn >= 2, "no response prepared");
    kani::cover!(applied && code == Some(ResponseType::UnKnown), "UnKnown code applied");
    core::mem::forget(req);
}
    };
}

//@ props=C07 tier=experimental timeout=1200 mem=16 cap=2 name=c07_apply_error
//@ functions=CoapRequest::apply_from_error, Packet::set_content_format, Packet::get_content_format, CoapResponse::new
//@ bounds=request: any first byte / code / id, token of 2 symbolic bytes; error code: None or any status a code byte names or UnKnown; message 0..3 ASCII bytes; response pre-state: an existing Content-Format value (2 symbolic bytes) and a payload byte
//@ what=true iff a response exists and the error has a code; then code, payload and content format are the error's (text/plain) and id, token, type, version are untouched; otherwise nothing changes
c07_apply_error!(c07_apply_error, true);

//@ props=C07 tier=quick timeout=1200 mem=5 cap=2 name=c07_apply_error_fresh
//@ functions=CoapRequest::apply_from_error, Packet::set_content_format, Packet::get_content_format, CoapResponse::new
//@ bounds=request: any first byte / code / id, token of 2 symbolic bytes; error code: None or any status a code byte names or UnKnown; message 0..3 ASCII bytes; response pre-state: no Content-Format yet, a payload byte
//@ what=true iff a response exists and the error has a code; then code, payload and content format are the error's (text/plain) and id, token, type, version are untouched; otherwise nothing changes
c07_apply_error!(c07_apply_error_fresh, false);

//@ props=C19 tier=quick timeout=600 model=0 mem=4
//@ functions=CoapRequest::get_method, CoapRequest::set_method
//@ bounds=code byte: all 256 values
//@ what=get_method names the method iff the raw code is 0.01-0.07, UnKnown otherwise; set_method stores the registry byte and reads back
#[kani::proof]
#[kani::stub(core::fmt::write, crate::verif_harness::stub_write)]
fn c19_method_accessors() {
    let n: u8 = kani::any();
    let mut req: CoapRequest<u8> = CoapRequest::new();
    req.message.header.code = MessageClass::from(n);
    let m = *req.get_method();
    let expect = match n {
        1 => Method::Get,
        2 => Method::Post,
        3 => Method::Put,
        4 => Method::Delete,
        5 => Method::Fetch,
        6 => Method::Patch,
        7 => Method::IPatch,
        _ => Method::UnKnown,
    };
    assert!(m == expect, "C19: get_method names the method of codes 0.01-0.07 and UnKnown otherwise");
    if n >= 1 && n <= 7 {
        let mut r2: CoapRequest<u8> = CoapRequest::new();
        r2.message.header.code = MessageClass::from(kani::any::<u8>());
        r2.set_method(expect);
        assert!(u8::from(r2.message.header.code) == n, "C19: set_method stores the registry byte whatever was there before");
        assert!(*r2.get_method() == expect, "C19: set_method then get_method");
        kani::cover!(n == 7, "iPATCH");
    }
    kani::cover!(n == 0x45, "a response code reads as UnKnown");
}

//@ props=C19,C06 tier=quick timeout=900 mem=10
//@ functions=CoapRequest::get_observe_flag, CoapRequest::set_observe_flag, Packet::get_observe_value, Packet::set_observe_value, option_to_uint
//@ bounds=raw Observe option value: every byte string of length 0..6, or absent; setter on top of 0..1 existing values
//@ what=flag = Register/Deregister iff the big-endian value is 0/1 (leading zeros included), InvalidObserve for other values and for values longer than 4 bytes, None when absent; set_observe_flag replaces whatever was there and reads back
#[kani::proof]
#[kani::unwind(9)]
#[kani::stub(core::fmt::write, crate::verif_harness::stub_write)]
fn c19_observe_flag() {
    let mut req: CoapRequest<u8> = CoapRequest::new();
    let present: bool = kani::any();
    let b: [u8; 6] = kani::any();
    let l: usize = kani::any();
    kani::assume(l <= 6);
    if present {
        req.message.add_option(CoapOption::Observe, b[..l].to_vec());
    }
    let mut v: u64 = 0;
    let mut k = 0;
    while k < 6 {
        if k < l {
            v = v << 8 | b[k] as u64;
        }
        k += 1;
    }
    match req.get_observe_flag() {
        None => assert!(!present, "C19: an Observe option that is present is reported"),
        Some(Ok(ObserveOption::Register)) => assert!(present && l <= 4 && v == 0, "C19: Register <=> value 0"),
        Some(Ok(ObserveOption::Deregister)) => assert!(present && l <= 4 && v == 1, "C19: Deregister <=> value 1"),
        Some(Err(_)) => assert!(present && (l > 4 || v > 1), "C19: InvalidObserve only for values other than 0 and 1"),
    }
    match req.message.get_observe_value() {
        None => assert!(!present),
        Some(Ok(x)) => assert!(l <= 4 && x as u64 == v, "C06: observe value is the big-endian fold"),
        Some(Err(_)) => assert!(l > 4, "C06: only over-long observe values are refused"),
    }
    kani::cover!(present && l == 3 && v == 1, "deregister with leading zeros");
    kani::cover!(present && l == 5, "over-long value");
    // setter replaces
    let f: bool = kani::any();
    let flag = if f { ObserveOption::Deregister } else { ObserveOption::Register };
    req.set_observe_flag(flag);
    assert!(req.get_observe_flag() == Some(Ok(flag)), "C19: set_observe_flag then get_observe_flag, whatever was there before");
    let raw = req.message.get_option(CoapOption::Observe);
    match raw {
        Some(list) => {
            assert!(list.len() == 1, "C19: set_observe_flag leaves exactly one Observe value");
            let first = list.front().unwrap();
            if f {
                assert!(first.len() == 1 && first[0] == 1, "C19: Deregister is stored as the byte 1");
            } else {
                assert!(first.is_empty(), "C19: Register is stored as the empty value");
            }
        }
        None => assert!(false, "C19: set_observe_flag stores an Observe option"),
    }
    core::mem::forget(req);
}

// ---------------------------------------------------------------------------------------------
// C19: path accessors on concrete path strings (paths are enumerated, not symbolic). Setter and
// getters are decided in separate queries that meet at the raw Uri-Path option values: one query
// with set_path, the raw check, get_path and get_path_as_vec did not finish in 25 minutes.
// ---------------------------------------------------------------------------------------------
macro_rules! c19_set_path {
    ($name:ident, $old:expr, $path:expr, [$($seg:expr),*]) => {
        #[kani::proof]
        #[kani::unwind(6)]
        #[kani::stub(core::fmt::write, crate::verif_harness::stub_write)]
        #[kani::stub(core::slice::memchr::memchr, crate::verif_harness::model_memchr)]
        fn $name() {
            let mut req: CoapRequest<u8> = CoapRequest::new();
            // whatever was there before: nothing, or an older segment with a symbolic byte (concrete per harness:
            // a symbolic choice made the map shape symbolic and the query ran out of memory)
            let had_old: bool = $old;
            if had_old {
                req.message.add_option(CoapOption::UriPath, vec![kani::any::<u8>() & 0x7F]);
            }
            req.set_path($path);
            let segs: &[&str] = &[$($seg),*];
            match req.message.get_option(CoapOption::UriPath) {
                Some(list) => {
                    assert!(list.len() == segs.len(), "C19: set_path stores one Uri-Path value per segment, replacing what was there");
                    // compared byte by byte at concrete positions (slice == is a memcmp loop over symbolic pointers,
                    // which cost 20 M SAT variables here)
                    let mut k = 0;
                    for v in list.iter() {
                        let want = segs[k].as_bytes();
                        assert!(v.len() == want.len(), "C19: Uri-Path values are the path segments in order");
                        let mut b = 0;
                        while b < want.len() {
                            if b < v.len() {
                                assert!(v[b] == want[b], "C19: Uri-Path values are the path segments in order");
                            }
                            b += 1;
                        }
                        k += 1;
                    }
                }
                None => assert!(segs.is_empty() && !had_old, "C19: set_path stores the segments"),
            }
            kani::cover!(true, "path set");
            core::mem::forget(req);
        }
    };
}

macro_rules! c19_get_path {
    ($name:ident, $unwind:expr, $joined:expr, [$($seg:expr),*]) => {
        #[kani::proof]
        #[kani::unwind($unwind)]
        #[kani::stub(core::fmt::write, crate::verif_harness::stub_write)]
        #[kani::stub(core::str::from_utf8, crate::verif_harness::model_from_utf8_valid_inputs)]
        fn $name() {
            let mut req: CoapRequest<u8> = CoapRequest::new();
            let segs: &[&str] = &[$($seg),*];
            let mut k = 0;
            while k < segs.len() {
                req.message.add_option(CoapOption::UriPath, segs[k].as_bytes().to_vec());
                k += 1;
            }
            // an unrelated option with symbolic content must not leak into the path
            req.message.add_option(CoapOption::UriQuery, vec![kani::any::<u8>() & 0x7F]);
            let which: bool = kani::any();
            if which {
                let got = req.get_path();
                assert!(got.as_bytes() == $joined.as_bytes(), "C19: get_path shows the stored Uri-Path segments joined by '/'");
                kani::cover!(true, "get_path");
            } else {
                match req.get_path_as_vec() {
                    Ok(v) => {
                        assert!(v.len() == segs.len(), "C19: get_path_as_vec shows the stored segments");
                        let mut k = 0;
                        while k < segs.len() {
                            assert!(v[k].as_bytes() == segs[k].as_bytes(), "C19: get_path_as_vec shows the stored segments");
                            k += 1;
                        }
                    }
                    Err(_) => assert!(false, "C19: valid UTF-8 segments read back"),
                }
                kani::cover!(true, "get_path_as_vec");
            }
            core::mem::forget(req);
        }
    };
}

//@ props=C19 tier=quick timeout=1500 mem=4 cap=2 name=c19_set_path_ab
//@ functions=CoapRequest::set_path, Packet::clear_option, Packet::add_option
//@ bounds=path string "a/b" (concrete); pre-state: one older one-byte Uri-Path segment (symbolic byte)
//@ what=set_path replaces the Uri-Path values by the segments of the string
c19_set_path!(c19_set_path_ab, true, "a/b", ["a", "b"]);

//@ props=C19 tier=quick timeout=1500 mem=4 cap=2 name=c19_set_path_ab_fresh
//@ functions=CoapRequest::set_path
//@ bounds=path string "a/b" (concrete) on a request without Uri-Path
//@ what=set_path stores the segments
c19_set_path!(c19_set_path_ab_fresh, false, "a/b", ["a", "b"]);

//@ props=C19 tier=quick timeout=1500 mem=17 cap=2 name=c19_set_path_slashes
//@ functions=CoapRequest::set_path
//@ bounds=path string "/a//" (concrete: leading slash, empty middle and trailing segments); pre-state as c19_set_path_ab
//@ what=one leading slash is dropped, every other segment - empty ones included - is kept (count and first segment; the empty segments' bytes are not touched)
#[kani::proof]
#[kani::unwind(8)]
#[kani::stub(core::fmt::write, crate::verif_harness::stub_write)]
#[kani::stub(core::slice::memchr::memchr, crate::verif_harness::model_memchr)]
fn c19_set_path_slashes() {
    let mut req: CoapRequest<u8> = CoapRequest::new();
    req.message.add_option(CoapOption::UriPath, vec![kani::any::<u8>() & 0x7F]);
    req.set_path("/a//");
    match req.message.get_option(CoapOption::UriPath) {
        Some(list) => {
            assert!(list.len() == 3, "C19: /a// has the segments a, empty, empty");
            let first = list.front().unwrap();
            assert!(first.len() == 1 && first[0] == b'a', "C19: the first segment follows the dropped leading slash");
            kani::cover!(true, "segments stored");
        }
        None => assert!(false, "C19: set_path stores the segments"),
    }
    core::mem::forget(req);
}

//@ props=C19 tier=quick timeout=1500 mem=5 cap=2 name=c19_set_path_root
//@ functions=CoapRequest::set_path
//@ bounds=path string "/" (concrete); pre-state as c19_set_path_ab
//@ what=only ONE leading slash is dropped: "/" is one empty segment
#[kani::proof]
#[kani::unwind(8)]
#[kani::stub(core::fmt::write, crate::verif_harness::stub_write)]
#[kani::stub(core::slice::memchr::memchr, crate::verif_harness::model_memchr)]
fn c19_set_path_root() {
    const ROOT: bool = true;
    let mut req: CoapRequest<u8> = CoapRequest::new();
    req.message.add_option(CoapOption::UriPath, vec![kani::any::<u8>() & 0x7F]);
    let root: bool = ROOT;
    req.set_path(if root { "/" } else { "//a" });
    // only the number of stored segments is inspected: touching an empty segment's (zero-capacity) Vec made
    // CBMC run out of memory
    match req.message.get_option(CoapOption::UriPath) {
        Some(list) => {
            if root {
                assert!(list.len() == 1, "C19: the path / is one (empty) segment");
            } else {
                assert!(list.len() == 2, "C19: //a has two segments: only one leading slash is dropped");
            }
            kani::cover!(true, "segments stored");
        }
        None => assert!(false, "C19: set_path stores the segments"),
    }
    core::mem::forget(req);
}

//@ props=C19 tier=quick timeout=1500 mem=4 cap=2 name=c19_set_path_dslash
//@ functions=CoapRequest::set_path
//@ bounds=path string "//a" (concrete); pre-state as c19_set_path_ab
//@ what=only ONE leading slash is dropped: "//a" is an empty segment followed by "a"
#[kani::proof]
#[kani::unwind(8)]
#[kani::stub(core::fmt::write, crate::verif_harness::stub_write)]
#[kani::stub(core::slice::memchr::memchr, crate::verif_harness::model_memchr)]
fn c19_set_path_dslash() {
    const ROOT: bool = false;
    let mut req: CoapRequest<u8> = CoapRequest::new();
    req.message.add_option(CoapOption::UriPath, vec![kani::any::<u8>() & 0x7F]);
    let root: bool = ROOT;
    req.set_path(if root { "/" } else { "//a" });
    // only the number of stored segments is inspected: touching an empty segment's (zero-capacity) Vec made
    // CBMC run out of memory
    match req.message.get_option(CoapOption::UriPath) {
        Some(list) => {
            if root {
                assert!(list.len() == 1, "C19: the path / is one (empty) segment");
            } else {
                assert!(list.len() == 2, "C19: //a has two segments: only one leading slash is dropped");
            }
            kani::cover!(true, "segments stored");
        }
        None => assert!(false, "C19: set_path stores the segments"),
    }
    core::mem::forget(req);
}

//@ props=C19 tier=quick timeout=1500 mem=4 cap=2 name=c19_set_path_empty
//@ functions=CoapRequest::set_path
//@ bounds=path string "" (concrete); pre-state as c19_set_path_ab
//@ what=the empty path clears the Uri-Path values
c19_set_path!(c19_set_path_empty, true, "", []);

//@ props=C19 tier=quick timeout=1500 mem=20 cap=3 name=c19_get_path_ab
//@ functions=CoapRequest::get_path, CoapRequest::get_path_as_vec, OptionValueString::try_from
//@ bounds=raw Uri-Path values "a", "b" (concrete) next to a Uri-Query value with a symbolic byte
//@ what=get_path = segments joined by '/', get_path_as_vec = the segments
//@ assumes=core::str::from_utf8 replaced by the byte-loop RFC 3629 model
c19_get_path!(c19_get_path_ab, 6, "a/b", ["a", "b"]);

//@ props=C19 tier=experimental timeout=1800 mem=13 cap=3 name=c19_get_path_slashes
//@ functions=CoapRequest::get_path, CoapRequest::get_path_as_vec
//@ bounds=raw Uri-Path values "a", "", "" (concrete)
//@ what=empty segments are kept by both getters
//@ assumes=core::str::from_utf8 replaced by the byte-loop RFC 3629 model
c19_get_path!(c19_get_path_slashes, 6, "a//", ["a", "", ""]);

//@ props=C19 tier=experimental timeout=1800 mem=13 cap=3 name=c19_get_path_utf8
//@ functions=CoapRequest::get_path, CoapRequest::get_path_as_vec
//@ bounds=raw Uri-Path values ".well-known" and a two-byte character (concrete)
//@ what=non-ASCII segments read back byte for byte
//@ assumes=core::str::from_utf8 replaced by the byte-loop RFC 3629 model
c19_get_path!(c19_get_path_utf8, 14, ".well-known/\u{e9}", [".well-known", "\u{e9}"]);
