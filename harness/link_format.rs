// Harnesses woven into src/link_format.rs (C17 parser steps / unquoting, C18 writer under sink faults).

/// Fault-injecting, byte-counting sink. `fail_at` = index of the first failing write call
/// (usize::MAX: never); `persistent` = every later call fails too.
pub(crate) struct Sink {
    pub calls: usize,
    pub fail_at: usize,
    pub persistent: bool,
    pub failed: bool,
    pub call_after_failure: bool,
    pub bytes: [u8; 96],
    pub n: usize,
}

impl Sink {
    pub fn new(fail_at: usize, persistent: bool) -> Sink {
        Sink { calls: 0, fail_at, persistent, failed: false, call_after_failure: false, bytes: [0; 96], n: 0 }
    }
}

impl core::fmt::Write for Sink {
    fn write_str(&mut self, s: &str) -> core::fmt::Result {
        let k = self.calls;
        self.calls += 1;
        if self.failed {
            self.call_after_failure = true;
        }
        if k == self.fail_at || (self.persistent && k > self.fail_at) {
            self.failed = true;
            return Err(core::fmt::Error);
        }
        let b = s.as_bytes();
        let mut i = 0;
        while i < b.len() {
            if self.n < 96 {
                self.bytes[self.n] = b[i];
            }
            self.n += 1;
            i += 1;
        }
        Ok(())
    }
}

/// The document of the C18 harnesses: a concrete call sequence with symbolic details.
/// Returns (result of the last attribute writer's finish(), result of the document's finish()).
fn c18_document<W: core::fmt::Write>(w: &mut W, newlines: bool, num: u8, third: bool) -> (bool, bool) {
    let mut doc = LinkFormatWrite::new(w);
    doc.set_add_newlines(newlines);
    let a = doc.link("/a").attr("rt", "x").attr_quoted("t", "q\"").finish().is_ok();
    let b = doc.link("/b").attr_u32("sz", num as u32).attr("if", "a b").finish().is_ok();
    let mut last = b;
    if third {
        last = doc.link("/c").attr_u16("n", 7).finish().is_ok();
    }
    let _ = a;
    (last, doc.finish().is_ok())
}

macro_rules! c18_faults {
    ($name:ident, $third:expr) => {
        #[kani::proof]
        #[kani::unwind(8)]
        fn $name() {
            let newlines: bool = kani::any();
            let num: u8 = kani::any();
            let third: bool = $third;
            // fault-free run: the reference output and the number of write calls
            let mut good = Sink::new(usize::MAX, false);
            let (l0, d0) = c18_document(&mut good, newlines, num, third);
            assert!(l0 && d0, "C18: a sink that never fails gives success");
            assert!(!good.failed && good.n <= 96);
            // expected text of the fault-free run, spot-checked at the places the writer composes
            assert!(good.bytes[0] == b'<' && good.bytes[1] == b'/' && good.bytes[2] == b'a' && good.bytes[3] == b'>',
                "C18: complete output starts with the first link");
            assert!(good.bytes[good.n - 1] == if third { b'7' } else { b'"' }, "C18: complete output ends with the last attribute");
            // faulty run
            let fail_at: usize = kani::any();
            kani::assume(fail_at < good.calls);
            let persistent: bool = kani::any();
            let mut bad = Sink::new(fail_at, persistent);
            let (l1, d1) = c18_document(&mut bad, newlines, num, third);
            assert!(bad.failed, "C18: the failing call is reached");
            assert!(!d1, "C18: the document's finish() reports the sink failure");
            assert!(!l1, "C18: the last link's finish() reports the sink failure");
            assert!(!bad.call_after_failure, "C18: nothing is written after the failed write");
            assert!(bad.n <= good.n, "C18: the sink holds a prefix of the fault-free output");
            let i: usize = kani::any();
            if i < bad.n && i < 96 {
                assert!(bad.bytes[i] == good.bytes[i], "C18: the sink holds a prefix of the fault-free output");
            }
            kani::cover!(fail_at == 0, "first call fails");
            kani::cover!(fail_at + 1 == good.calls, "last call fails");
            kani::cover!(newlines && !persistent && bad.n > 4, "one-shot failure with newlines after the first link");
        }
    };
}

//@ props=C18 tier=quick timeout=1200 mem=4 model=0 stub_fmt=0 name=c18_faults_2links
//@ functions=LinkFormatWrite::link, LinkFormatWrite::finish, LinkFormatWrite::set_add_newlines, LinkAttributeWrite::attr, LinkAttributeWrite::attr_quoted, LinkAttributeWrite::attr_u32, LinkAttributeWrite::finish, internal_attr_key_eq
//@ bounds=document: 2 links, attr / attr_quoted (one character needing an escape) / attr_u32(any u8) / attr that falls back to quoting; fault: every index of the write calls issued (symbolic) x {once, persistent} x newline option on/off
//@ what=finish() (document and last link) is Err iff a call failed; no call reaches the sink after the first failure; accepted bytes are a prefix of the fault-free output; a sink that never fails => Ok and complete output
//@ outside=other document shapes (the call sequence is concrete); the real core::fmt integer formatting runs unstubbed
c18_faults!(c18_faults_2links, false);

//@ props=C18 tier=thorough timeout=2400 mem=13 model=0 stub_fmt=0 name=c18_faults_3links
//@ functions=LinkFormatWrite::link, LinkFormatWrite::finish, LinkAttributeWrite::attr, LinkAttributeWrite::attr_quoted, LinkAttributeWrite::attr_u32, LinkAttributeWrite::attr_u16
//@ bounds=as c18_faults_2links with a third link written through attr_u16 (two separators, so a failure inside the second separator is followed by further links)
//@ what=as c18_faults_2links
c18_faults!(c18_faults_3links, true);

//@ props=C18 tier=quick timeout=900 mem=4 model=0 stub_fmt=0
//@ functions=LinkFormatWrite::link (separator and newline), LinkFormatWrite::finish
//@ bounds=3 bare links; fault at every write call (symbolic) x {once, persistent}; newline option on/off
//@ what=focus on the ',' + "\n\r" separator: a failure of either part is reported by finish() and nothing follows it
#[kani::proof]
#[kani::unwind(8)]
fn c18_separator_faults() {
    let newlines: bool = kani::any();
    let run = |w: &mut Sink| -> bool {
        let mut doc = LinkFormatWrite::new(w);
        doc.set_add_newlines(newlines);
        doc.link("x");
        doc.link("y");
        doc.link("z");
        doc.finish().is_ok()
    };
    let mut good = Sink::new(usize::MAX, false);
    assert!(run(&mut good), "C18: fault-free run succeeds");
    let expect_len = if newlines { 3 + 3 + 3 + 2 * 3 } else { 3 + 3 + 3 + 2 };
    assert!(good.n == expect_len, "C18: complete output");
    if newlines {
        assert!(good.bytes[3] == b',' && good.bytes[4] == b'\n' && good.bytes[5] == b'\r' && good.bytes[6] == b'<',
            "C18: separator is ',' followed by the newline sequence");
    } else {
        assert!(good.bytes[3] == b',' && good.bytes[4] == b'<');
    }
    let fail_at: usize = kani::any();
    kani::assume(fail_at < good.calls);
    let persistent: bool = kani::any();
    let mut bad = Sink::new(fail_at, persistent);
    let ok = run(&mut bad);
    assert!(!ok, "C18: finish() reports the sink failure");
    assert!(!bad.call_after_failure, "C18: nothing is written after the failed write");
    assert!(bad.n <= good.n);
    let i: usize = kani::any();
    if i < bad.n && i < 96 {
        assert!(bad.bytes[i] == good.bytes[i], "C18: the sink holds a prefix of the fault-free output");
    }
    kani::cover!(newlines && bad.n == 3, "the ',' itself failed with newlines on");
    kani::cover!(newlines && bad.n == 4, "the newline sequence failed");
}

// ---------------------------------------------------------------------------------------------
// C17: parser steps and unquoting
// ---------------------------------------------------------------------------------------------
fn ascii4() -> ([u8; 4], usize) {
    ascii_upto(4)
}

fn ascii_upto(maxl: usize) -> ([u8; 4], usize) {
    let b: [u8; 4] = kani::any();
    let l: usize = kani::any();
    kani::assume(l <= maxl);
    kani::assume(b[0] < 0x80 && b[1] < 0x80 && b[2] < 0x80 && b[3] < 0x80);
    (b, l)
}

fn inside(s: &str, base: usize, l: usize) -> bool {
    let a = s.as_ptr() as usize;
    s.is_empty() || (a >= base && a + s.len() <= base + l)
}

//@ props=C17 tier=quick timeout=2400 mem=10 model=0 stub_fmt=0
//@ functions=LinkFormatParser::next, str::trim_end_matches, str::trim_matches
//@ bounds=one step from every remaining input that is an ASCII string of 0..4 bytes
//@ what=no panic; the link and the attribute text are substrings of the input, in left-to-right order; what remains is a suffix of the input, strictly shorter when an item was produced and empty after an error or at the end - by induction over the suffix: termination, ordering, nothing after the first error
//@ outside=non-ASCII input; inputs longer than 4 bytes
#[kani::proof]
#[kani::unwind(7)]
fn c17_link_step() {
    let (b, l) = ascii4();
    let s = unsafe { core::str::from_utf8_unchecked(&b[..l]) };
    let base = s.as_ptr() as usize;
    let mut p = LinkFormatParser::new(s);
    let item = p.next();
    let rest = p.inner;
    assert!(rest.is_empty() || rest.as_ptr() as usize + rest.len() == base + l, "C17: the remaining input is a suffix of the input");
    match item {
        None => {
            assert!(rest.is_empty(), "C17: iteration ends with nothing left");
            kani::cover!(l == 2, "whitespace-only input ends the iteration");
        }
        Some(Err(_)) => {
            assert!(rest.is_empty(), "C17: nothing is yielded after the first error");
            kani::cover!(l == 4, "error on a four-byte input");
        }
        Some(Ok((link, attrs))) => {
            assert!(rest.len() < l, "C17: every item consumes input (termination)");
            assert!(inside(link, base, l), "C17: the link is a substring of the input");
            let a = attrs.inner;
            assert!(inside(a, base, l - rest.len()), "C17: the attribute text is a substring of the consumed input");
            if !a.is_empty() && !link.is_empty() {
                assert!(a.as_ptr() as usize >= link.as_ptr() as usize + link.len(), "C17: attributes come after the link");
            }
            kani::cover!(!a.is_empty(), "a link with attribute text");
            kani::cover!(!rest.is_empty(), "a link followed by more input");
            kani::cover!(link.is_empty(), "empty link <>");
        }
    }
}

macro_rules! c17_attr_step {
    ($name:ident, $maxl:expr) => {
#[kani::proof]
#[kani::unwind(7)]
fn $name() {
    let (b, l) = ascii_upto($maxl);
    let s = unsafe { core::str::from_utf8_unchecked(&b[..l]) };
    let base = s.as_ptr() as usize;
    let mut p = LinkAttributeParser { inner: s };
    let item = p.next();
    let rest = p.inner;
    assert!(rest.is_empty() || rest.as_ptr() as usize + rest.len() == base + l, "C17: the remaining attribute text is a suffix of the input");
    match item {
        None => assert!(l == 0, "C17: the attribute iterator ends only on empty input"),
        Some((key, value)) => {
            assert!(rest.len() < l, "C17: every attribute consumes input (termination)");
            let raw = value.into_raw_str();
            assert!(inside(key, base, l - rest.len()), "C17: the key is a substring of the consumed input");
            assert!(inside(raw, base, l - rest.len()), "C17: the value is a substring of the consumed input");
            if !key.is_empty() && !raw.is_empty() {
                assert!(raw.as_ptr() as usize > key.as_ptr() as usize + key.len() - 1, "C17: the value comes after the key");
            }
            kani::cover!(!raw.is_empty() && !key.is_empty(), "opt: key=value");
            kani::cover!(!rest.is_empty(), "more attributes follow");
            kani::cover!(raw.len() >= 1 && raw.as_bytes()[0] == b'"', "a value that starts with a quote");
        }
    }
}
    };
}
//@ props=C17 tier=thorough timeout=2400 mem=14 model=0 stub_fmt=0 name=c17_attr_step
//@ functions=LinkAttributeParser::next, Unquote::new, Unquote::into_raw_str, str::find, str::split_at, str::trim
//@ bounds=one step from every remaining attribute text that is an ASCII string of 0..4 bytes (thorough tier only: 15 minutes whatever the length bound - the cost is the symbolic execution of trim/find/split_at - and a quick check has to finish within 15 minutes)
//@ what=no panic; key and raw value are substrings of the input, key before value; what remains is a suffix, strictly shorter when an item was produced
//@ outside=non-ASCII input; inputs longer than 4 bytes
c17_attr_step!(c17_attr_step, 4);

//@ props=C17 tier=quick timeout=2400 mem=24 model=0 stub_fmt=0 witness=c17_cow_2 name=c17_cow
//@ functions=Unquote::to_cow, Unquote::next, Unquote::is_quoted, Unquote::fmt (Display), str::find
//@ bounds=every ASCII string of 0..3 bytes as the raw attribute value (includes a lone quote, an unterminated quoted string, text after the closing quote, escapes)
//@ what=to_cow() does not panic and equals the character-by-character unquoted form
//@ outside=non-ASCII input; values longer than 3 bytes
macro_rules! c17_cow {
    ($name:ident, $maxl:expr) => {
#[kani::proof]
#[kani::unwind(6)]
fn $name() {
    let b: [u8; 3] = kani::any();
    let l: usize = kani::any();
    kani::assume(l <= $maxl);
    kani::assume(b[0] < 0x80 && b[1] < 0x80 && b[2] < 0x80);
    let s = unsafe { core::str::from_utf8_unchecked(&b[..l]) };
    let u = Unquote::new(s);
    let cow = u.to_cow();
    let mut it = u.clone();
    let mut out = [0u8; 3];
    let mut n = 0;
    while let Some(c) = it.next() {
        out[n] = c as u8;
        n += 1;
    }
    let cb = cow.as_bytes();
    assert!(cb.len() == n, "C17: to_cow() and character iteration give the same length");
    if n > 0 && cb.len() > 0 {
        assert!(cb[0] == out[0], "C17: to_cow() equals character iteration (first character)");
    }
    if n > 1 && cb.len() > 1 {
        assert!(cb[1] == out[1], "C17: to_cow() equals character iteration (second character)");
    }
    if n > 2 && cb.len() > 2 {
        assert!(cb[2] == out[2], "C17: to_cow() equals character iteration (third character)");
    }
    kani::cover!(l == 1 && b[0] == b'"', "a lone quote");
    kani::cover!(l == 2 && b[0] == b'"' && b[1] == b'a', "unterminated quoted string");
    kani::cover!(l == $maxl && b[0] == b'"' && b[1] == b'"', "closing quote directly after the opening one");
    kani::cover!(l == $maxl && b[0] == b'a', "unquoted");
}
    };
}
c17_cow!(c17_cow, 3);

//@ props=C17 tier=witness timeout=2400 mem=30 model=0 stub_fmt=0 name=c17_cow_2
//@ functions=Unquote::to_cow
//@ bounds=quoted ASCII strings of exactly 3 bytes: '"' followed by two symbolic bytes; only used to extract concrete counterexamples (trace generation on the full harness does not fit)
//@ what=as c17_cow
#[kani::proof]
#[kani::unwind(6)]
fn c17_cow_2() {
    let x: u8 = kani::any();
    let y: u8 = kani::any();
    kani::assume(x < 0x80 && y < 0x80);
    let b = [b'"', x, y];
    let s = unsafe { core::str::from_utf8_unchecked(&b) };
    let u = Unquote::new(s);
    let cow = u.to_cow();
    let mut it = u.clone();
    let mut out = [0u8; 3];
    let mut n = 0;
    while let Some(c) = it.next() {
        out[n] = c as u8;
        n += 1;
    }
    let cb = cow.as_bytes();
    assert!(cb.len() == n, "C17: to_cow() and character iteration give the same length");
    if n > 0 && cb.len() > 0 {
        assert!(cb[0] == out[0], "C17: to_cow() equals character iteration (first character)");
    }
    if n > 1 && cb.len() > 1 {
        assert!(cb[1] == out[1], "C17: to_cow() equals character iteration (second character)");
    }
}

//@ props=C17 tier=quick timeout=1800 mem=4 model=0 stub_fmt=0
//@ functions=Unquote::next
//@ bounds=one step from every state (not started / unquoted / quoted) and every remaining ASCII string of 0..4 bytes
//@ what=no panic; the remaining characters are a suffix of the input or empty, strictly shorter after a yielded character; once None is returned it stays None (fused)
#[kani::proof]
#[kani::unwind(7)]
fn c17_unquote_step() {
    let (b, l) = ascii4();
    let s = unsafe { core::str::from_utf8_unchecked(&b[..l]) };
    let base = s.as_ptr() as usize;
    let st: u8 = kani::any();
    kani::assume(st < 3);
    let mut u = Unquote {
        inner: s.chars(),
        state: match st { 0 => UnquoteState::NotStarted, 1 => UnquoteState::NotQuoted, _ => UnquoteState::Quoted },
    };
    let c = u.next();
    let rest = u.inner.as_str();
    assert!(rest.is_empty() || rest.as_ptr() as usize + rest.len() == base + l, "C17: unquoting consumes a prefix");
    match c {
        Some(ch) => {
            assert!(rest.len() < l, "C17: a yielded character consumes input");
            assert!((ch as u32) < 0x80);
            kani::cover!(st == 2 && l - rest.len() == 2, "an escaped character");
        }
        None => {
            assert!(u.next().is_none(), "C17: the unquoting iterator is fused");
            kani::cover!(st == 2 && l >= 1, "closing quote ends the value");
            kani::cover!(l == 0, "empty input");
        }
    }
}
