// Harnesses woven into src/impl_coap_message.rs (C19, coap-message 0.3 view).
use crate::verif_harness::VerifMapExt;
use alloc::collections::LinkedList;
use coap_message_0_3::MessageOption as _;

fn sample_packet(symbolic_numbers: bool) -> (Packet, u8, u16, u16, [u8; 4], [u8; 2]) {
    let mut p = Packet::new();
    let code: u8 = kani::any();
    p.header.code = MessageClass::from(code);
    let (n1, n2): (u16, u16) = if symbolic_numbers {
        let a: u16 = kani::any();
        let b: u16 = kani::any();
        kani::assume(a < b && b - a >= 2);
        (a, b)
    } else {
        (11, 60)
    };
    let v: [u8; 4] = kani::any();
    let mut l1 = LinkedList::new();
    l1.push_back(vec![v[0]]);
    l1.push_back(vec![v[1], v[2]]);
    let mut l2 = LinkedList::new();
    l2.push_back(vec![v[3]]);
    p.options.verif_push_sorted(n1, l1);
    // an option that was cleared (clear_option leaves an empty value list in the map) sits in between
    p.options.verif_push_sorted(n1 + 1, LinkedList::new());
    p.options.verif_push_sorted(n2, l2);
    let pay: [u8; 2] = kani::any();
    p.payload = pay.to_vec();
    (p, code, n1, n2, v, pay)
}

//@ props=C19 tier=quick timeout=1500 mem=4 cap=4
//@ functions=<Packet as coap_message(0.3)::ReadableMessage>::{code, payload, options}, MessageOptionAdapter::next, 
//@ bounds=message: any code byte, two symbolic option numbers n1 < n2 in concrete slots with values ([a],[b,c]) and ([d]), and a cleared option (empty value list) at n1+1 in between, 2 symbolic payload bytes
//@ what=options() yields (n1,[a]) (n1,[b,c]) (n2,[d]) then None - ascending numbers, per-number order, same bytes; code and payload agree with the raw fields
#[kani::proof]
#[kani::unwind(6)]
#[kani::stub(core::fmt::write, crate::verif_harness::stub_write)]
fn c19_cm_read_03() {
    let (p, code, n1, n2, v, pay) = sample_packet(true);
    assert!(u8::from(ReadableMessage::code(&p)) == code, "C19: trait code() = raw code");
    assert!(ReadableMessage::payload(&p).len() == 2 && ReadableMessage::payload(&p)[1] == pay[1], "C19: trait payload() = raw payload");
    let mut it = ReadableMessage::options(&p);
    match it.next() {
        Some(o) => assert!(o.number() == n1 && o.value().len() == 1 && o.value()[0] == v[0], "C19: first option of the flattened view"),
        None => assert!(false, "C19: flattened view yields every value"),
    }
    match it.next() {
        Some(o) => assert!(o.number() == n1 && o.value().len() == 2 && o.value()[0] == v[1] && o.value()[1] == v[2], "C19: repeated option keeps its order"),
        None => assert!(false, "C19: flattened view yields every value"),
    }
    match it.next() {
        Some(o) => assert!(o.number() == n2 && o.value().len() == 1 && o.value()[0] == v[3], "C19: options ascend by number"),
        None => assert!(false, "C19: flattened view yields every value"),
    }
    assert!(it.next().is_none(), "C19: flattened view ends after the last value");
    kani::cover!(n2 == n1 + 2, "closest numbers");
    kani::cover!(n1 == 0 && n2 == 65535, "extreme numbers");
    core::mem::forget(p);
}

//@ props=C19 tier=quick timeout=1500 mem=4 cap=4
//@ functions=<Packet as MinimalWritableMessage>::{set_code, add_option, set_payload, set_from_message}, MessageOptionAdapter::next
//@ bounds=source message: any code byte, option numbers 11 and 60 (concrete) with symbolic values ([a],[b,c]) and ([d]) and a cleared option 12 in between, 2 symbolic payload bytes
//@ what=a message copied through set_from_message has the same code, the same options in ascending order and the same payload
#[kani::proof]
#[kani::unwind(6)]
#[kani::stub(core::fmt::write, crate::verif_harness::stub_write)]
fn c19_cm_copy_03() {
    let (p, code, n1, n2, v, pay) = sample_packet(false);
    // copy through the generic interface
    let mut q = Packet::new();
    assert!(MinimalWritableMessage::set_from_message(&mut q, &p).is_ok(), "C19: copying through the generic interface succeeds");
    assert!(q.header.code == p.header.code, "C19: copied message has the same code");
    assert!(q.payload.len() == 2 && q.payload[0] == pay[0] && q.payload[1] == pay[1], "C19: copied message has the same payload");
    match (q.get_option(CoapOption::from(n1)), q.get_option(CoapOption::from(n2))) {
        (Some(a), Some(b)) => {
            assert!(a.len() == 2 && b.len() == 1, "C19: copied message has the same options");
            assert!(a.front().unwrap().len() == 1 && a.front().unwrap()[0] == v[0]);
            assert!(a.back().unwrap().len() == 2 && a.back().unwrap()[1] == v[2]);
            assert!(b.front().unwrap()[0] == v[3]);
        }
        _ => assert!(false, "C19: copied message has the same options"),
    }
    let mut total = 0;
    for (_, l) in q.options() {
        total += l.len();
    }
    assert!(total == 3, "C19: copied message has no extra options");
    kani::cover!(code == 0x45, "a 2.05 message copied");
    core::mem::forget(p);
    core::mem::forget(q);
}

//@ props=C19 tier=quick timeout=1500 mem=4 cap=4
//@ functions=<Packet as MinimalWritableMessage>::set_code, <Packet as MutableWritableMessage>::{payload_mut_with_len, truncate, available_space, mutate_options}
//@ bounds=message with option numbers 11 and 60 (concrete), symbolic values ([a],[b,c]) and ([d]), 2 symbolic payload bytes; new code byte, resize length 0..4 and truncate length 0..5 symbolic
//@ what=set_code / payload_mut_with_len / truncate / mutate_options change exactly the raw state
#[kani::proof]
#[kani::unwind(6)]
#[kani::stub(core::fmt::write, crate::verif_harness::stub_write)]
fn c19_cm_writers_03() {
    let (mut q, code, n1, n2, v, pay) = sample_packet(false);
    // writers
    let nc: u8 = kani::any();
    MinimalWritableMessage::set_code(&mut q, MessageClass::from(nc));
    assert!(u8::from(q.header.code) == nc, "C19: trait set_code writes the raw code");
    let len: usize = kani::any();
    kani::assume(len <= 4);
    {
        let m = match MutableWritableMessage::payload_mut_with_len(&mut q, len) { Ok(m) => m, Err(_) => unreachable!() };
        assert!(m.len() == len, "C19: payload_mut_with_len resizes the payload");
    }
    assert!(q.payload.len() == len);
    if len >= 1 { assert!(q.payload[0] == pay[0], "C19: resizing keeps the existing prefix"); }
    if len >= 3 { assert!(q.payload[2] == 0, "C19: resizing pads with zeros"); }
    let t: usize = kani::any();
    kani::assume(t <= 5);
    assert!(MutableWritableMessage::truncate(&mut q, t).is_ok());
    assert!(q.payload.len() == if t < len { t } else { len }, "C19: truncate shortens the payload");
    assert!(MutableWritableMessage::available_space(&q) == usize::MAX);
    let mut seen = 0u32;
    MutableWritableMessage::mutate_options(&mut q, |num, val| {
        seen += 1;
        if u16::from(num) == n2 {
            val[0] = 0xAA;
        }
    });
    assert!(seen == 3, "C19: mutate_options visits every value");
    assert!(q.get_first_option(CoapOption::from(n2)).unwrap()[0] == 0xAA, "C19: mutate_options writes through to the raw option");
    assert!(q.get_first_option(CoapOption::from(n1)).unwrap()[0] == v[0], "C19: mutate_options leaves other values alone");
    kani::cover!(len == 4 && t == 3, "grow then truncate");
    kani::cover!(len == 0, "resize to empty");
    core::mem::forget(q);
}
