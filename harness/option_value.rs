// Harnesses woven into src/option_value.rs (C06).

macro_rules! c06_uint_encode {
    ($name:ident, $wrap:ident, $t:ty, $w:expr) => {
        #[kani::proof]
        #[kani::unwind(11)]
        #[kani::stub(core::fmt::write, crate::verif_harness::stub_write)]
        fn $name() {
            let v: $t = kani::any();
            let (exp, n) = crate::verif_harness::ref_uint(v as u64);
            let enc: Vec<u8> = $wrap(v).into();
            assert!(enc.len() == n, "C06: encoded length is minimal (zero is empty)");
            let i: usize = kani::any();
            if i < n {
                assert!(enc[i] == exp[i], "C06: encoded bytes are big-endian");
            }
            match $wrap::try_from(enc) {
                Ok(d) => assert!(d.0 == v, "C06: decode(encode(v)) = v"),
                Err(_) => assert!(false, "C06: an encoded value decodes"),
            }
            kani::cover!(n == $w, "full-width value");
            kani::cover!(n == 0, "zero");
            kani::cover!(n == 1, "one byte");
        }
    };
}

//@ props=C06 tier=quick timeout=600 model=0 name=c06_encode_u8
//@ functions=option_from_uint, option_to_uint, From<OptionValueU8> for Vec<u8>, TryFrom<Vec<u8>> for OptionValueU8
//@ bounds=every u8
//@ what=shortest big-endian form, round trip
c06_uint_encode!(c06_encode_u8, OptionValueU8, u8, 1);
//@ props=C06 tier=quick timeout=600 model=0 name=c06_encode_u16
//@ functions=option_from_uint, option_to_uint, OptionValueU16
//@ bounds=every u16
//@ what=shortest big-endian form, round trip
c06_uint_encode!(c06_encode_u16, OptionValueU16, u16, 2);
//@ props=C06 tier=quick timeout=600 model=0 name=c06_encode_u32
//@ functions=option_from_uint, option_to_uint, OptionValueU32
//@ bounds=every u32
//@ what=shortest big-endian form, round trip
c06_uint_encode!(c06_encode_u32, OptionValueU32, u32, 4);
//@ props=C06 tier=quick timeout=900 model=0 name=c06_encode_u64
//@ functions=option_from_uint, option_to_uint, OptionValueU64
//@ bounds=every u64
//@ what=shortest big-endian form, round trip
c06_uint_encode!(c06_encode_u64, OptionValueU64, u64, 8);

macro_rules! c06_uint_decode {
    ($name:ident, $wrap:ident, $t:ty, $w:expr) => {
        #[kani::proof]
        #[kani::unwind(12)]
        #[kani::stub(core::fmt::write, crate::verif_harness::stub_write)]
        fn $name() {
            let b: [u8; 10] = kani::any();
            let l: usize = kani::any();
            kani::assume(l <= 10);
            let mut v: u64 = 0;
            let mut k = 0;
            while k < 10 {
                if k < l && k < 8 {
                    v = v << 8 | b[k] as u64;
                }
                k += 1;
            }
            match $wrap::try_from(b[..l].to_vec()) {
                Ok(d) => {
                    assert!(l <= $w, "C06: byte strings longer than the width are rejected");
                    assert!(d.0 as u64 == v, "C06: decoding is the big-endian value, leading zeros included");
                    kani::cover!(l == $w && b[0] == 0, "full width with a leading zero");
                    kani::cover!(l == 0, "empty string is zero");
                }
                Err(_) => {
                    assert!(l > $w, "C06: every byte string up to the width decodes");
                    kani::cover!(l == $w + 1, "one byte too long");
                }
            }
        }
    };
}

//@ props=C06 tier=quick timeout=600 model=0 name=c06_decode_u8
//@ functions=option_to_uint, TryFrom<Vec<u8>> for OptionValueU8
//@ bounds=every byte string of length 0..10
//@ what=accept iff length <= width, value = big-endian fold
c06_uint_decode!(c06_decode_u8, OptionValueU8, u8, 1);
//@ props=C06 tier=quick timeout=600 model=0 name=c06_decode_u16
//@ functions=option_to_uint, OptionValueU16
//@ bounds=every byte string of length 0..10
//@ what=accept iff length <= width, value = big-endian fold
c06_uint_decode!(c06_decode_u16, OptionValueU16, u16, 2);
//@ props=C06 tier=quick timeout=600 model=0 name=c06_decode_u32
//@ functions=option_to_uint, OptionValueU32
//@ bounds=every byte string of length 0..10
//@ what=accept iff length <= width, value = big-endian fold
c06_uint_decode!(c06_decode_u32, OptionValueU32, u32, 4);
//@ props=C06 tier=quick timeout=900 model=0 name=c06_decode_u64
//@ functions=option_to_uint, OptionValueU64
//@ bounds=every byte string of length 0..10
//@ what=accept iff length <= width, value = big-endian fold
c06_uint_decode!(c06_decode_u64, OptionValueU64, u64, 8);
