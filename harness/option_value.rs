// Harnesses woven into src/option_value.rs (C06).

macro_rules! c06_uint_encode {
    ($name:ident, $wrap:ident, $t:ty, $w:expr) => {
        #[kani::proof]
        #[kani::unwind(11)]
        #[kani::stub(core::fmt::write, crate::verif_harness::stub_write)]
        fn $name() {
            let v: $t = kani::any();
            let (exp, n) = crate::verif_harness::ref_uint(v as u64);
            let enc: Vec<u8> = $wrap(v).into();
            assert!(enc.len() == n, "C06: encoded length is minimal (zero is empty)");
            let i: usize = kani::any();
            if i < n {
                assert!(enc[i] == exp[i], "C06: encoded bytes are big-endian");
            }
            match $wrap::try_from(enc) {
                Ok(d) => assert!(d.0 == v, "C06: decode(encode(v)) = v"),
                Err(_) => assert!(false, "C06: an encoded value decodes"),
            }
            kani::cover!(n == $w, "full-width value");
            kani::cover!(n == 0, "zero");
            kani::cover!(n == 1, "one byte");
        }
    };
}

//@ props=C06 tier=quick timeout=600 model=0 name=c06_encode_u8 mem=4
//@ functions=option_from_uint, option_to_uint, From<OptionValueU8> for Vec<u8>, TryFrom<Vec<u8>> for OptionValueU8
//@ bounds=every u8
//@ what=shortest big-endian form, round trip
c06_uint_encode!(c06_encode_u8, OptionValueU8, u8, 1);
//@ props=C06 tier=quick timeout=600 model=0 name=c06_encode_u16 mem=4
//@ functions=option_from_uint, option_to_uint, OptionValueU16
//@ bounds=every u16
//@ what=shortest big-endian form, round trip
c06_uint_encode!(c06_encode_u16, OptionValueU16, u16, 2);
//@ props=C06 tier=quick timeout=600 model=0 name=c06_encode_u32 mem=4
//@ functions=option_from_uint, option_to_uint, OptionValueU32
//@ bounds=every u32
//@ what=shortest big-endian form, round trip
c06_uint_encode!(c06_encode_u32, OptionValueU32, u32, 4);
//@ props=C06 tier=quick timeout=900 model=0 name=c06_encode_u64 mem=4
//@ functions=option_from_uint, option_to_uint, OptionValueU64
//@ bounds=every u64
//@ what=shortest big-endian form, round trip
c06_uint_encode!(c06_encode_u64, OptionValueU64, u64, 8);

macro_rules! c06_uint_decode {
    ($name:ident, $wrap:ident, $t:ty, $w:expr) => {
        #[kani::proof]
        #[kani::unwind(12)]
        #[kani::stub(core::fmt::write, crate::verif_harness::stub_write)]
        fn $name() {
            let b: [u8; 10] = kani::any();
            let l: usize = kani::any();
            kani::assume(l <= 10);
            let mut v: u64 = 0;
            let mut k = 0;
            while k < 10 {
                if k < l && k < 8 {
                    v = v << 8 | b[k] as u64;
                }
                k += 1;
            }
            match $wrap::try_from(b[..l].to_vec()) {
                Ok(d) => {
                    assert!(l <= $w, "C06: byte strings longer than the width are rejected");
                    assert!(d.0 as u64 == v, "C06: decoding is the big-endian value, leading zeros included");
                    kani::cover!(l == $w && b[0] == 0, "full width with a leading zero");
                    kani::cover!(l == 0, "empty string is zero");
                }
                Err(_) => {
                    assert!(l > $w, "C06: every byte string up to the width decodes");
                    kani::cover!(l == $w + 1, "one byte too long");
                }
            }
        }
    };
}

//@ props=C06 tier=quick timeout=600 model=0 name=c06_decode_u8 mem=4
//@ functions=option_to_uint, TryFrom<Vec<u8>> for OptionValueU8
//@ bounds=every byte string of length 0..10
//@ what=accept iff length <= width, value = big-endian fold
c06_uint_decode!(c06_decode_u8, OptionValueU8, u8, 1);
//@ props=C06 tier=quick timeout=600 model=0 name=c06_decode_u16 mem=4
//@ functions=option_to_uint, OptionValueU16
//@ bounds=every byte string of length 0..10
//@ what=accept iff length <= width, value = big-endian fold
c06_uint_decode!(c06_decode_u16, OptionValueU16, u16, 2);
//@ props=C06 tier=quick timeout=600 model=0 name=c06_decode_u32 mem=4
//@ functions=option_to_uint, OptionValueU32
//@ bounds=every byte string of length 0..10
//@ what=accept iff length <= width, value = big-endian fold
c06_uint_decode!(c06_decode_u32, OptionValueU32, u32, 4);
//@ props=C06 tier=quick timeout=900 model=0 name=c06_decode_u64 mem=4
//@ functions=option_to_uint, OptionValueU64
//@ bounds=every byte string of length 0..10
//@ what=accept iff length <= width, value = big-endian fold
c06_uint_decode!(c06_decode_u64, OptionValueU64, u64, 8);

/// RFC 3629 well-formedness of a byte string of up to 4 bytes, written as a table of cases.
fn ref_utf8_valid(b: &[u8; 4], l: usize) -> bool {
    let mut i = 0usize;
    let mut steps = 0;
    while steps < 5 {
        if i >= l {
            return true;
        }
        let c = b[i];
        let need = if c < 0x80 {
            0
        } else if c >= 0xC2 && c <= 0xDF {
            1
        } else if c >= 0xE0 && c <= 0xEF {
            2
        } else if c >= 0xF0 && c <= 0xF4 {
            3
        } else {
            return false;
        };
        if need > 0 && i + need >= l {
            return false;
        }
        if need >= 1 {
            let d = b[i + 1];
            let (lo, hi) = match c {
                0xE0 => (0xA0, 0xBF),
                0xED => (0x80, 0x9F),
                0xF0 => (0x90, 0xBF),
                0xF4 => (0x80, 0x8F),
                _ => (0x80, 0xBF),
            };
            if d < lo || d > hi {
                return false;
            }
        }
        if need >= 2 && (b[i + 2] < 0x80 || b[i + 2] > 0xBF) {
            return false;
        }
        if need >= 3 && (b[i + 3] < 0x80 || b[i + 3] > 0xBF) {
            return false;
        }
        i += need + 1;
        steps += 1;
    }
    true
}

//@ props=C06 tier=quick timeout=1800 mem=12 model=0 name=c06_string_roundtrip_3
//@ functions=TryFrom<Vec<u8>> for OptionValueString, From<OptionValueString> for Vec<u8>, String::from_utf8
//@ bounds=every byte string of length 0..3 (symbolic length and bytes)
//@ what=well-formed UTF-8 (RFC 3629, checked by an independent case table) is accepted and converts back to the same bytes; anything else is rejected with an error
//@ assumes=core::str::from_utf8 is replaced by the byte-loop RFC 3629 model (std's word-at-a-time validator ran out of memory at 2 bytes); what is decided is the wrapper: accept/reject follows the validator and accepted bytes come back unchanged
//@ outside=strings longer than 3 bytes (4 in the thorough tier); the text of the error message (core::fmt::write stubbed)
macro_rules! c06_string {
    ($name:ident, $maxl:expr) => {
#[kani::proof]
#[kani::unwind(10)]
#[kani::stub(core::fmt::write, crate::verif_harness::stub_write)]
#[kani::stub(core::str::from_utf8, crate::verif_harness::model_from_utf8)]
fn $name() {
    let b: [u8; 4] = kani::any();
    let l: usize = kani::any();
    kani::assume(l <= $maxl);
    let valid = ref_utf8_valid(&b, l);
    match OptionValueString::try_from(b[..l].to_vec()) {
        Ok(s) => {
            assert!(valid, "C06: invalid UTF-8 is rejected");
            let back: Vec<u8> = s.into();
            assert!(back.len() == l, "C06: text option round trip keeps the length");
            let i: usize = kani::any();
            if i < l {
                assert!(back[i] == b[i], "C06: text option round trip keeps the bytes");
            }
            kani::cover!(l == $maxl, "a string of the maximum length");
            kani::cover!(l == 2 && b[0] == 0xC3, "a two-byte code point");
            kani::cover!(l == 0, "the empty string");
        }
        Err(_) => {
            assert!(!valid, "C06: every well-formed UTF-8 string is accepted");
            kani::cover!(l == 2 && b[0] == 0xC0, "an overlong encoding");
            kani::cover!(l == 2 && b[0] == 0xE0, "a truncated three-byte sequence");
            kani::cover!(l == 1 && b[0] >= 0x80, "a lone continuation or lead byte");
        }
    }
}
    };
}
c06_string!(c06_string_roundtrip_3, 3);

//@ props=C06 tier=thorough timeout=3000 mem=19 model=0 name=c06_string_roundtrip_4
//@ functions=TryFrom<Vec<u8>> for OptionValueString, From<OptionValueString> for Vec<u8>, String::from_utf8
//@ bounds=every byte string of length 0..4
//@ what=as c06_string_roundtrip_3; reaches four-byte code points
//@ assumes=core::str::from_utf8 is replaced by the byte-loop RFC 3629 model
c06_string!(c06_string_roundtrip_4, 4);
