// Harnesses woven into src/header.rs (C05 code / type registries, C04 raw header capacity).

/// RFC 7252 / 7959 / 8132 / 8516 / 8768 code registry, transcribed from the IANA
/// "CoAP Codes" registry (not from the source): byte -> expected class.
fn ref_code(n: u8) -> MessageClass {
    use MessageClass::*;
    use RequestType as Q;
    use ResponseType as S;
    match n {
        0x00 => Empty,
        // 0.01-0.07: RFC 7252 (GET POST PUT DELETE), RFC 8132 (FETCH PATCH iPATCH)
        0x01 => Request(Q::Get),
        0x02 => Request(Q::Post),
        0x03 => Request(Q::Put),
        0x04 => Request(Q::Delete),
        0x05 => Request(Q::Fetch),
        0x06 => Request(Q::Patch),
        0x07 => Request(Q::IPatch),
        // 2.xx
        0x41 => Response(S::Created),  // 2.01
        0x42 => Response(S::Deleted),  // 2.02
        0x43 => Response(S::Valid),    // 2.03
        0x44 => Response(S::Changed),  // 2.04
        0x45 => Response(S::Content),  // 2.05
        0x5F => Response(S::Continue), // 2.31 RFC 7959
        // 4.xx
        0x80 => Response(S::BadRequest),               // 4.00
        0x81 => Response(S::Unauthorized),             // 4.01
        0x82 => Response(S::BadOption),                // 4.02
        0x83 => Response(S::Forbidden),                // 4.03
        0x84 => Response(S::NotFound),                 // 4.04
        0x85 => Response(S::MethodNotAllowed),         // 4.05
        0x86 => Response(S::NotAcceptable),            // 4.06
        0x88 => Response(S::RequestEntityIncomplete),  // 4.08 RFC 7959
        0x89 => Response(S::Conflict),                 // 4.09 RFC 8132
        0x8C => Response(S::PreconditionFailed),       // 4.12
        0x8D => Response(S::RequestEntityTooLarge),    // 4.13
        0x8F => Response(S::UnsupportedContentFormat), // 4.15
        0x96 => Response(S::UnprocessableEntity),      // 4.22 RFC 8132
        0x9D => Response(S::TooManyRequests),          // 4.29 RFC 8516
        // 5.xx
        0xA0 => Response(S::InternalServerError),  // 5.00
        0xA1 => Response(S::NotImplemented),       // 5.01
        0xA2 => Response(S::BadGateway),           // 5.02
        0xA3 => Response(S::ServiceUnavailable),   // 5.03
        0xA4 => Response(S::GatewayTimeout),       // 5.04
        0xA5 => Response(S::ProxyingNotSupported), // 5.05
        0xA8 => Response(S::HopLimitReached),      // 5.08 RFC 8768
        n => Reserved(n),
    }
}

//@ props=C05 tier=quick timeout=300 model=0 mem=4
//@ functions=MessageClass::from(u8), u8::from(MessageClass), ResponseType::is_error
//@ bounds=code byte: all 256 values as one symbolic u8
//@ what=number->name->number identity, every byte against the IANA code registry, unassigned => Reserved(n), is_error <=> byte >= 0x80
#[kani::proof]
#[kani::stub(core::fmt::write, crate::verif_harness::stub_write)]
fn c05_code_registry() {
    let n: u8 = kani::any();
    let c = MessageClass::from(n);
    assert!(u8::from(c) == n, "C05: code byte -> class -> byte is the identity");
    assert!(c == ref_code(n), "C05: code byte maps to the class the registry assigns (unassigned => Reserved)");
    // name -> number -> name for the value the registry names
    assert!(MessageClass::from(u8::from(ref_code(n))) == ref_code(n), "C05: name -> number -> name");
    if let MessageClass::Response(r) = c {
        assert!(r.is_error() == (n >= 0x80), "C05: is_error <=> code byte >= 4.00");
        kani::cover!(r.is_error(), "an error response code");
        kani::cover!(!r.is_error(), "a success response code");
    }
    assert!(ResponseType::UnKnown.is_error(), "C05: UnKnown (byte 0xFF) counts as an error");
    assert!(u8::from(MessageClass::Response(ResponseType::UnKnown)) >= 0x80);
    kani::cover!(matches!(c, MessageClass::Reserved(_)), "an unassigned code");
    kani::cover!(n == 0x5F, "2.31 Continue");
}

//@ props=C05,C01 tier=quick timeout=300 model=0 mem=4
//@ functions=Header::set_version, Header::get_version, Header::set_type, Header::get_type, Header::set_token_length, Header::get_token_length, Header::from_raw, Header::to_raw
//@ bounds=first header byte: all 256 values; version argument 0..3; all 4 types; token length 0..15
//@ what=type <-> 2-bit field, version and token-length fields, each setter leaves the other fields alone, in both call orders
#[kani::proof]
#[kani::stub(core::fmt::write, crate::verif_harness::stub_write)]
fn c05_type_version_bits() {
    let b: u8 = kani::any();
    let raw = HeaderRaw { ver_type_tkl: b, code: kani::any(), message_id: kani::any() };
    let mut h = Header::from_raw(&raw);
    assert!(h.get_version() == b >> 6);
    assert!(h.get_token_length() == b & 0x0F);
    let t = h.get_type();
    let tn = (b >> 4) & 3;
    match tn {
        0 => assert!(t == MessageType::Confirmable, "C05: type 0 = CON"),
        1 => assert!(t == MessageType::NonConfirmable, "C05: type 1 = NON"),
        2 => assert!(t == MessageType::Acknowledgement, "C05: type 2 = ACK"),
        _ => assert!(t == MessageType::Reset, "C05: type 3 = RST"),
    }
    let back = h.to_raw();
    assert!(back.ver_type_tkl == b && back.code == raw.code && back.message_id == raw.message_id,
        "C05: raw -> header -> raw is the identity");
    // setters, any order
    let v: u8 = kani::any();
    kani::assume(v <= 3);
    let nt: u8 = kani::any();
    kani::assume(nt <= 3);
    let new_t = match nt {
        0 => MessageType::Confirmable,
        1 => MessageType::NonConfirmable,
        2 => MessageType::Acknowledgement,
        _ => MessageType::Reset,
    };
    let tkl: u8 = kani::any();
    kani::assume(tkl <= 15);
    let order: u8 = kani::any();
    kani::assume(order < 3);
    match order {
        0 => { h.set_version(v); h.set_type(new_t); h.set_token_length(tkl); }
        1 => { h.set_type(new_t); h.set_token_length(tkl); h.set_version(v); }
        _ => { h.set_token_length(tkl); h.set_version(v); h.set_type(new_t); }
    }
    assert!(h.to_raw().ver_type_tkl == (v << 6 | nt << 4 | tkl), "C05/C01: first byte = Ver<<6 | T<<4 | TKL whatever the setter order");
    assert!(h.get_type() == new_t && h.get_version() == v && h.get_token_length() == tkl);
    kani::cover!(order == 1 && v == 3 && nt == 3, "version 3, RST, type set first");
    kani::cover!(tn == 2, "decoded ACK");
}

//@ props=C05 tier=quick timeout=900 model=0 stub_fmt=0 mem=8
//@ functions=MessageClass::fmt (Display), Header::get_code
//@ bounds=code byte: all 256 values; the real core::fmt machinery runs (no stub)
//@ what=dotted text of a code is c.dd byte for byte
#[kani::proof]
#[kani::unwind(6)]
fn c05_code_display() {
    let n: u8 = kani::any();
    let c = MessageClass::from(n);
    let s = c.to_string();
    let b = s.as_bytes();
    assert!(b.len() == 4, "C05: c.dd has four characters");
    assert!(b[0] == b'0' + (n >> 5), "C05: class digit");
    assert!(b[1] == b'.');
    assert!(b[2] == b'0' + (n & 31) / 10, "C05: detail tens digit");
    assert!(b[3] == b'0' + (n & 31) % 10, "C05: detail units digit");
    kani::cover!(n == 0x5F, "2.31");
    kani::cover!(n == 0xFF, "7.31");
}

//@ props=C05 tier=thorough timeout=3000 mem=24 model=0 stub_fmt=0
//@ functions=Header::set_code
//@ bounds=class digit 0..7, detail 00..31 as symbolic text "c.dd" (all 256 codes)
//@ what=parsing the dotted text yields the byte c<<5|d and the class the registry assigns
#[kani::proof]
#[kani::unwind(6)]
fn c05_set_code_text() {
    let c: u8 = kani::any();
    let d: u8 = kani::any();
    kani::assume(c <= 7 && d <= 31);
    let txt = [b'0' + c, b'.', b'0' + d / 10, b'0' + d % 10];
    let s = unsafe { core::str::from_utf8_unchecked(&txt) };
    let mut h = Header::new();
    h.set_code(s);
    assert!(u8::from(h.code) == (c << 5 | d), "C05: text c.dd parses to the byte c<<5|d");
    kani::cover!(c == 2 && d == 31, "2.31");
    kani::cover!(c == 7 && d == 31, "7.31");
}

//@ props=C04 tier=quick timeout=300 model=0 mem=4
//@ functions=HeaderRaw::serialize_into
//@ bounds=buffer capacity 0..8 (symbolic), all header field values
//@ what=a buffer with capacity < 4 is refused with a packet-length error and left untouched; otherwise exactly the four header bytes are appended
#[kani::proof]
#[kani::unwind(10)]
#[kani::stub(core::fmt::write, crate::verif_harness::stub_write)]
fn c04_header_capacity() {
    let cap: usize = kani::any();
    kani::assume(cap <= 8);
    let raw = HeaderRaw { ver_type_tkl: kani::any(), code: kani::any(), message_id: kani::any() };
    let mut buf: Vec<u8> = Vec::with_capacity(cap);
    let r = raw.serialize_into(&mut buf);
    match r {
        Err(e) => {
            assert!(e == MessageError::InvalidPacketLength, "C04: short buffer => packet-length error");
            assert!(buf.is_empty(), "C04: refused header writes nothing");
            kani::cover!(true, "refused");
        }
        Ok(()) => {
            assert!(buf.len() == 4);
            assert!(buf[0] == raw.ver_type_tkl && buf[1] == raw.code);
            assert!(buf[2] == (raw.message_id >> 8) as u8 && buf[3] == raw.message_id as u8, "C01: message id big-endian");
            kani::cover!(true, "written");
        }
    }
}
