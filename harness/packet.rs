// Harnesses woven into src/packet.rs (C01-C04 codec, C05 registries, C06/C19 typed accessors).
use crate::verif_harness::{ref_opt_hdr, ref_uint, VerifMapExt};
use crate::error::MessageError;

// ---------------------------------------------------------------------------------------------
// C05 registries
// ---------------------------------------------------------------------------------------------

/// IANA "CoAP Option Numbers" rows this crate names (RFC 7252, 7641, 7959, 7967, 8613),
/// transcribed from the registry: number -> expected variant.
fn ref_option(n: u16) -> CoapOption {
    match n {
        1 => CoapOption::IfMatch,
        3 => CoapOption::UriHost,
        4 => CoapOption::ETag,
        5 => CoapOption::IfNoneMatch,
        6 => CoapOption::Observe,       // RFC 7641
        7 => CoapOption::UriPort,
        8 => CoapOption::LocationPath,
        9 => CoapOption::Oscore,        // RFC 8613
        11 => CoapOption::UriPath,
        12 => CoapOption::ContentFormat,
        14 => CoapOption::MaxAge,
        15 => CoapOption::UriQuery,
        17 => CoapOption::Accept,
        20 => CoapOption::LocationQuery,
        23 => CoapOption::Block2,       // RFC 7959
        27 => CoapOption::Block1,       // RFC 7959
        28 => CoapOption::Size2,        // RFC 7959
        35 => CoapOption::ProxyUri,
        39 => CoapOption::ProxyScheme,
        60 => CoapOption::Size1,
        258 => CoapOption::NoResponse,  // RFC 7967
        n => CoapOption::Unknown(n),
    }
}

//@ props=C05 tier=quick timeout=300 model=0
//@ functions=CoapOption::from(u16), u16::from(CoapOption)
//@ bounds=option number: all 65536 values as one symbolic u16
//@ what=number -> name -> number identity; every number against the IANA option registry; unassigned => Unknown(n)
#[kani::proof]
#[kani::stub(core::fmt::write, crate::verif_harness::stub_write)]
fn c05_option_numbers() {
    let n: u16 = kani::any();
    let o = CoapOption::from(n);
    assert!(u16::from(o) == n, "C05: option number -> name -> number is the identity");
    assert!(o == ref_option(n), "C05: option number maps to the name the registry assigns (unassigned => Unknown)");
    assert!(CoapOption::from(u16::from(ref_option(n))) == ref_option(n), "C05: option name -> number -> name");
    kani::cover!(n == 258, "No-Response");
    kani::cover!(matches!(o, CoapOption::Unknown(_)), "an unassigned number");
}

/// IANA "CoAP Content-Formats" rows this crate names, transcribed from the registry.
fn ref_content_format(n: usize) -> Option<ContentFormat> {
    use ContentFormat::*;
    Some(match n {
        0 => TextPlain,
        16 => ApplicationCoseEncrypt0,
        17 => ApplicationCoseMac0,
        18 => ApplicationCoseSign1,
        19 => ApplicationAceCbor,
        21 => ImageGif,
        22 => ImageJpeg,
        23 => ImagePng,
        40 => ApplicationLinkFormat,
        41 => ApplicationXML,
        42 => ApplicationOctetStream,
        47 => ApplicationEXI,
        50 => ApplicationJSON,
        51 => ApplicationJsonPatchJson,
        52 => ApplicationMergePatchJson,
        60 => ApplicationCBOR,
        61 => ApplicationCWt,
        62 => ApplicationMultipartCore,
        63 => ApplicationCborSeq,
        96 => ApplicationCoseEncrypt,
        97 => ApplicationCoseMac,
        98 => ApplicationCoseSign,
        101 => ApplicationCoseKey,
        102 => ApplicationCoseKeySet,
        110 => ApplicationSenmlJSON,
        111 => ApplicationSensmlJSON,
        112 => ApplicationSenmlCBOR,
        113 => ApplicationSensmlCBOR,
        114 => ApplicationSenmlExi,
        115 => ApplicationSensmlExi,
        140 => ApplicationYangDataCborSid,
        256 => ApplicationCoapGroupJson,
        271 => ApplicationDotsCbor,
        272 => ApplicationMissingBlocksCborSeq,
        280 => ApplicationPkcs7MimeServerGeneratedKey,
        281 => ApplicationPkcs7MimeCertsOnly,
        284 => ApplicationPkcs8,
        285 => ApplicationCsrattrs,
        286 => ApplicationPkcs10,
        287 => ApplicationPkixCert,
        290 => ApplicationAifCbor,
        291 => ApplicationAifJson,
        310 => ApplicationSenmlXML,
        311 => ApplicationSensmlXML,
        320 => ApplicationSenmlEtchJson,
        322 => ApplicationSenmlEtchCbor,
        340 => ApplicationYangDataCbor,
        341 => ApplicationYangDataCborName,
        432 => ApplicationTdJson,
        836 => ApplicationVoucherCoseCbor,
        10000 => ApplicationVndOcfCbor,
        10001 => ApplicationOscore,
        10002 => ApplicationJavascript,
        11050 => ApplicationJsonDeflate,
        11060 => ApplicationCborDeflate,
        11542 => ApplicationVndOmaLwm2mTlv,
        11543 => ApplicationVndOmaLwm2mJson,
        11544 => ApplicationVndOmaLwm2mCbor,
        20000 => TextCss,
        30000 => ImageSvgXml,
        _ => return None,
    })
}

//@ props=C05 tier=quick timeout=300 model=0
//@ functions=ContentFormat::try_from(usize), usize::from(ContentFormat), ObserveOption::try_from(usize), usize::from(ObserveOption)
//@ bounds=content-format id and observe value: every usize (2^64) as one symbolic variable each
//@ what=Ok iff the id is in the 60-row registry table, with the registry's name, and name -> number gives the id back; observe 0/1 <-> Register/Deregister, everything else invalid
#[kani::proof]
#[kani::stub(core::fmt::write, crate::verif_harness::stub_write)]
fn c05_content_formats() {
    let n: usize = kani::any();
    match (ContentFormat::try_from(n), ref_content_format(n)) {
        (Ok(f), Some(e)) => {
            assert!(f == e, "C05: content-format id maps to the registry's media type");
            assert!(usize::from(f) == n, "C05: content-format id -> name -> id is the identity");
            kani::cover!(n == 30000, "image/svg+xml");
            kani::cover!(n == 836, "voucher-cose+cbor");
        }
        (Err(_), None) => {
            kani::cover!(n > 65535, "an id beyond 16 bits");
        }
        (Ok(_), None) => assert!(false, "C05: unassigned content-format id reported as a named format"),
        (Err(_), Some(_)) => assert!(false, "C05: registered content-format id reported invalid"),
    }
    let o: usize = kani::any();
    match ObserveOption::try_from(o) {
        Ok(ObserveOption::Register) => assert!(o == 0, "C05: observe 0 = register"),
        Ok(ObserveOption::Deregister) => assert!(o == 1, "C05: observe 1 = deregister"),
        Err(_) => assert!(o > 1, "C05: observe values 0 and 1 are valid"),
    }
    assert!(usize::from(ObserveOption::Register) == 0 && usize::from(ObserveOption::Deregister) == 1);
}
