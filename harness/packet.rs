// Harnesses woven into src/packet.rs (C01-C04 codec, C05 registries, C06/C19 typed accessors).
use crate::verif_harness::{ref_opt_hdr, ref_uint, VerifMapExt};
use crate::error::MessageError;

// ---------------------------------------------------------------------------------------------
// C05 registries
// ---------------------------------------------------------------------------------------------

/// IANA "CoAP Option Numbers" rows this crate names (RFC 7252, 7641, 7959, 7967, 8613),
/// transcribed from the registry: number -> expected variant.
fn ref_option(n: u16) -> CoapOption {
    match n {
        1 => CoapOption::IfMatch,
        3 => CoapOption::UriHost,
        4 => CoapOption::ETag,
        5 => CoapOption::IfNoneMatch,
        6 => CoapOption::Observe,       // RFC 7641
        7 => CoapOption::UriPort,
        8 => CoapOption::LocationPath,
        9 => CoapOption::Oscore,        // RFC 8613
        11 => CoapOption::UriPath,
        12 => CoapOption::ContentFormat,
        14 => CoapOption::MaxAge,
        15 => CoapOption::UriQuery,
        17 => CoapOption::Accept,
        20 => CoapOption::LocationQuery,
        23 => CoapOption::Block2,       // RFC 7959
        27 => CoapOption::Block1,       // RFC 7959
        28 => CoapOption::Size2,        // RFC 7959
        35 => CoapOption::ProxyUri,
        39 => CoapOption::ProxyScheme,
        60 => CoapOption::Size1,
        258 => CoapOption::NoResponse,  // RFC 7967
        n => CoapOption::Unknown(n),
    }
}

//@ props=C05 tier=quick timeout=300 model=0 mem=4
//@ functions=CoapOption::from(u16), u16::from(CoapOption)
//@ bounds=option number: all 65536 values as one symbolic u16
//@ what=number -> name -> number identity; every number against the IANA option registry; unassigned => Unknown(n)
#[kani::proof]
#[kani::stub(core::fmt::write, crate::verif_harness::stub_write)]
fn c05_option_numbers() {
    let n: u16 = kani::any();
    let o = CoapOption::from(n);
    assert!(u16::from(o) == n, "C05: option number -> name -> number is the identity");
    assert!(o == ref_option(n), "C05: option number maps to the name the registry assigns (unassigned => Unknown)");
    assert!(CoapOption::from(u16::from(ref_option(n))) == ref_option(n), "C05: option name -> number -> name");
    kani::cover!(n == 258, "No-Response");
    kani::cover!(matches!(o, CoapOption::Unknown(_)), "an unassigned number");
}

/// IANA "CoAP Content-Formats" rows this crate names, transcribed from the registry.
fn ref_content_format(n: usize) -> Option<ContentFormat> {
    use ContentFormat::*;
    Some(match n {
        0 => TextPlain,
        16 => ApplicationCoseEncrypt0,
        17 => ApplicationCoseMac0,
        18 => ApplicationCoseSign1,
        19 => ApplicationAceCbor,
        21 => ImageGif,
        22 => ImageJpeg,
        23 => ImagePng,
        40 => ApplicationLinkFormat,
        41 => ApplicationXML,
        42 => ApplicationOctetStream,
        47 => ApplicationEXI,
        50 => ApplicationJSON,
        51 => ApplicationJsonPatchJson,
        52 => ApplicationMergePatchJson,
        60 => ApplicationCBOR,
        61 => ApplicationCWt,
        62 => ApplicationMultipartCore,
        63 => ApplicationCborSeq,
        96 => ApplicationCoseEncrypt,
        97 => ApplicationCoseMac,
        98 => ApplicationCoseSign,
        101 => ApplicationCoseKey,
        102 => ApplicationCoseKeySet,
        110 => ApplicationSenmlJSON,
        111 => ApplicationSensmlJSON,
        112 => ApplicationSenmlCBOR,
        113 => ApplicationSensmlCBOR,
        114 => ApplicationSenmlExi,
        115 => ApplicationSensmlExi,
        140 => ApplicationYangDataCborSid,
        256 => ApplicationCoapGroupJson,
        271 => ApplicationDotsCbor,
        272 => ApplicationMissingBlocksCborSeq,
        280 => ApplicationPkcs7MimeServerGeneratedKey,
        281 => ApplicationPkcs7MimeCertsOnly,
        284 => ApplicationPkcs8,
        285 => ApplicationCsrattrs,
        286 => ApplicationPkcs10,
        287 => ApplicationPkixCert,
        290 => ApplicationAifCbor,
        291 => ApplicationAifJson,
        310 => ApplicationSenmlXML,
        311 => ApplicationSensmlXML,
        320 => ApplicationSenmlEtchJson,
        322 => ApplicationSenmlEtchCbor,
        340 => ApplicationYangDataCbor,
        341 => ApplicationYangDataCborName,
        432 => ApplicationTdJson,
        836 => ApplicationVoucherCoseCbor,
        10000 => ApplicationVndOcfCbor,
        10001 => ApplicationOscore,
        10002 => ApplicationJavascript,
        11050 => ApplicationJsonDeflate,
        11060 => ApplicationCborDeflate,
        11542 => ApplicationVndOmaLwm2mTlv,
        11543 => ApplicationVndOmaLwm2mJson,
        11544 => ApplicationVndOmaLwm2mCbor,
        20000 => TextCss,
        30000 => ImageSvgXml,
        _ => return None,
    })
}

//@ props=C05 tier=quick timeout=300 model=0 mem=4
//@ functions=ContentFormat::try_from(usize), usize::from(ContentFormat), ObserveOption::try_from(usize), usize::from(ObserveOption)
//@ bounds=content-format id and observe value: every usize (2^64) as one symbolic variable each
//@ what=Ok iff the id is in the 60-row registry table, with the registry's name, and name -> number gives the id back; observe 0/1 <-> Register/Deregister, everything else invalid
#[kani::proof]
#[kani::stub(core::fmt::write, crate::verif_harness::stub_write)]
fn c05_content_formats() {
    let n: usize = kani::any();
    match (ContentFormat::try_from(n), ref_content_format(n)) {
        (Ok(f), Some(e)) => {
            assert!(f == e, "C05: content-format id maps to the registry's media type");
            assert!(usize::from(f) == n, "C05: content-format id -> name -> id is the identity");
            kani::cover!(n == 30000, "image/svg+xml");
            kani::cover!(n == 836, "voucher-cose+cbor");
        }
        (Err(_), None) => {
            kani::cover!(n > 65535, "an id beyond 16 bits");
        }
        (Ok(_), None) => assert!(false, "C05: unassigned content-format id reported as a named format"),
        (Err(_), Some(_)) => assert!(false, "C05: registered content-format id reported invalid"),
    }
    let o: usize = kani::any();
    match ObserveOption::try_from(o) {
        Ok(ObserveOption::Register) => assert!(o == 0, "C05: observe 0 = register"),
        Ok(ObserveOption::Deregister) => assert!(o == 1, "C05: observe 1 = deregister"),
        Err(_) => assert!(o > 1, "C05: observe values 0 and 1 are valid"),
    }
    assert!(usize::from(ObserveOption::Register) == 0 && usize::from(ObserveOption::Deregister) == 1);
}

// ---------------------------------------------------------------------------------------------
// C03: reference parser (RFC 7252 section 3), three-valued
// ---------------------------------------------------------------------------------------------
pub(crate) const REF_MAX_OPTS: usize = 8;

#[derive(Clone, Copy)]
pub(crate) struct RefOpt {
    pub number: u32,
    pub start: usize,
    pub end: usize,
}

pub(crate) const V_REJECT: u8 = 0;
pub(crate) const V_ACCEPT: u8 = 1;
pub(crate) const V_EITHER: u8 = 2;

pub(crate) struct RefParse {
    pub verdict: u8,
    /// why a datagram is malformed: 1 short header, 2 token length 9..15, 3 truncated token,
    /// 4 nibble 15, 5 truncated extended field, 6 truncated value, 7 option number > 65535
    pub reason: u8,
    pub tkl: usize,
    pub nopts: usize,
    pub opts: [RefOpt; REF_MAX_OPTS],
    pub payload_start: usize,
    pub payload_end: usize,
}

/// Reference parser written from RFC 7252 section 3 (figure 7, 8 and section 3.1), working on
/// offsets only. `buf[..len]` is the datagram.
pub(crate) fn ref_parse(buf: &[u8], len: usize, maxo: usize) -> RefParse {
    let mut r = RefParse {
        verdict: V_REJECT,
        reason: 0,
        tkl: 0,
        nopts: 0,
        opts: [RefOpt { number: 0, start: 0, end: 0 }; REF_MAX_OPTS],
        payload_start: len,
        payload_end: len,
    };
    if len < 4 {
        r.reason = 1;
        return r;
    }
    let tkl = (buf[0] & 0x0F) as usize;
    if tkl > 8 {
        r.reason = 2;
        return r;
    }
    if 4 + tkl > len {
        r.reason = 3;
        return r;
    }
    r.tkl = tkl;
    let mut either = (buf[0] >> 6) != 1;
    if buf[1] == 0 && len > 4 {
        // RFC 7252 section 4.1: an Empty message has nothing after the message id; a parser may
        // reject it or keep what it finds
        either = true;
    }
    let mut idx = 4 + tkl;
    let mut number: u32 = 0;
    let mut k = 0;
    while k < maxo + 1 {
        if idx >= len {
            break;
        }
        let b = buf[idx];
        if b == 0xFF {
            r.payload_start = idx + 1;
            if idx + 1 == len {
                // marker followed by a zero-length payload: RFC says MUST be treated as a format
                // error; tolerated by this crate: either
                either = true;
            }
            break;
        }
        if k == maxo {
            // more options than the reference can hold: no opinion
            r.verdict = V_EITHER;
            r.nopts = 0;
            return r;
        }
        let dn = (b >> 4) as u32;
        let ln = (b & 0x0F) as u32;
        idx += 1;
        if dn == 15 || ln == 15 {
            r.reason = 4;
            return r;
        }
        let mut delta = dn;
        if dn == 13 {
            if idx >= len {
                r.reason = 5;
                return r;
            }
            delta = buf[idx] as u32 + 13;
            idx += 1;
        } else if dn == 14 {
            if idx + 1 >= len {
                r.reason = 5;
                return r;
            }
            delta = ((buf[idx] as u32) << 8 | buf[idx + 1] as u32) + 269;
            idx += 2;
        }
        let mut length = ln as usize;
        if ln == 13 {
            if idx >= len {
                r.reason = 5;
                return r;
            }
            length = buf[idx] as usize + 13;
            idx += 1;
        } else if ln == 14 {
            if idx + 1 >= len {
                r.reason = 5;
                return r;
            }
            length = ((buf[idx] as usize) << 8 | buf[idx + 1] as usize) + 269;
            idx += 2;
        }
        number += delta;
        if number > 65535 {
            r.reason = 7;
            return r;
        }
        if idx + length > len {
            r.reason = 6;
            return r;
        }
        r.opts[k] = RefOpt { number, start: idx, end: idx + length };
        idx += length;
        k += 1;
        r.nopts = k;
    }
    r.verdict = if either { V_EITHER } else { V_ACCEPT };
    r
}

/// Compare a parsed packet with the reference parse, field by field.
fn c03_compare(p: &Packet, buf: &[u8], len: usize, r: &RefParse, maxo: usize, contents: bool) {
    assert!(p.header.get_version() == buf[0] >> 6, "C03: version field");
    assert!(p.header.get_token_length() as usize == r.tkl, "C03: token length field");
    assert!(u8::from(p.header.code) == buf[1], "C03: code byte");
    assert!(p.header.message_id == ((buf[2] as u16) << 8 | buf[3] as u16), "C03: message id big-endian");
    assert!(p.get_token().len() == r.tkl, "C03: token length");
    let ti: usize = kani::any();
    if contents && ti < r.tkl {
        assert!(p.get_token()[ti] == buf[4 + ti], "C03: token bytes");
    }
    // Options: the map sorted by number with per-number insertion order, flattened, must be the wire order.
    // Both sides are walked in step; the map side is only touched at concrete cell / list positions.
    let mut k = 0usize;
    for (num, list) in p.options.iter() {
        for v in list.iter() {
            assert!(k < r.nopts, "C03: parser returned more option values than the datagram holds");
            if k < r.nopts && k < maxo {
                let o = r.opts[k];
                assert!(*num as u32 == o.number, "C03: option number = sum of deltas, repeated numbers in wire order");
                assert!(v.len() == o.end - o.start, "C03: option value length");
                if contents {
                    let b: usize = kani::any();
                    if b < v.len() {
                        assert!(v[b] == buf[o.start + b], "C03: option value bytes");
                    }
                }
            }
            k += 1;
        }
    }
    assert!(k == r.nopts, "C03: parser returned every option value of the datagram");
    assert!(p.payload.len() == r.payload_end - r.payload_start, "C03: payload length");
    let pi: usize = kani::any();
    if contents && pi < p.payload.len() {
        assert!(p.payload[pi] == buf[r.payload_start + pi], "C03: payload bytes");
    }
}

macro_rules! c03_total {
    ($name:ident, $n:expr, $u:expr, $cmp:expr) => {
        #[kani::proof]
        #[kani::unwind($u)]
        #[kani::stub(core::fmt::write, crate::verif_harness::stub_write)]
        fn $name() {
            const N: usize = $n;
            let buf: [u8; N] = kani::any();
            let len: usize = kani::any();
            kani::assume(len <= N);
            let r = ref_parse(&buf, len, N - 4);
            let res = Packet::from_bytes(&buf[..len]);
            match res {
                Ok(p) => {
                    assert!(r.verdict != V_REJECT, "C03: malformed datagram accepted");
                    if r.verdict == V_ACCEPT && $cmp {
                        c03_compare(&p, &buf, len, &r, N - 4, false);
                    }
                    kani::cover!(r.nopts >= 2, "accepted with two or more options");
                    kani::cover!(r.payload_start < len, "accepted with a payload");
                    kani::cover!(r.tkl + 5 == N, "accepted with the longest token that leaves room for one more byte");
                    core::mem::forget(p);
                }
                Err(_) => {
                    assert!(r.verdict != V_ACCEPT, "C03: well-formed version-1 datagram rejected");
                    kani::cover!(r.reason == 1, "rejected: shorter than four bytes");
                    kani::cover!(r.reason == 2, "rejected: token length 9..15");
                    kani::cover!(r.reason == 3, "rejected: truncated token");
                    kani::cover!(r.reason == 4, "rejected: nibble 15");
                    kani::cover!(r.reason == 5, "rejected: truncated extended field");
                    kani::cover!(r.reason == 6, "rejected: truncated option value");
                }
            }
        }
    };
}

//@ props=C03 tier=thorough timeout=2400 mem=29 cap=4 ilist=1 witness=c03_total_6 name=c03_total_8
//@ functions=Packet::from_bytes, HeaderRaw::try_from, Header::from_raw, MessageClass::from
//@ bounds=every byte string of length 0..8 (length and all bytes symbolic); unwind 7
//@ what=never panics/overflows/reads out of bounds (Kani's implicit checks); must-reject => Err; must-accept => Ok (verdict only; field equality is c03_fields_*)
//@ assumes=option map is the fixed-capacity array model (capacity = max distinct numbers an 8-byte datagram can hold)
c03_total!(c03_total_8, 8, 7, false);

//@ props=C03 tier=thorough timeout=1800 mem=18 cap=3 ilist=1 witness=c03_total_6 name=c03_total_7
//@ functions=Packet::from_bytes, HeaderRaw::try_from, Header::from_raw, MessageClass::from
//@ bounds=every byte string of length 0..7 (length and all bytes symbolic); unwind 6. The 8-byte form (c03_total_8, 20 minutes) is in the thorough tier: the quick tier has to finish within 15 minutes
//@ what=never panics/overflows/reads out of bounds (Kani's implicit checks); must-reject => Err; must-accept => Ok
//@ assumes=option map is the fixed-capacity array model
c03_total!(c03_total_7, 7, 6, false);

//@ props=C03,C02 tier=quick timeout=850 mem=16 cap=2 ilist=1 witness=c03_total_6 name=c03_framing_6
//@ functions=Packet::from_bytes
//@ bounds=every byte string of length 0..6; unwind 6. The 7-byte form (c03_framing_7, 20 minutes) is in the thorough tier
//@ what=as c03_total_7 plus the framing of an accepted well-formed datagram (version, type, TKL, code, id, number of option values, each option's number and length in wire order, payload length) equals the RFC 7252 reference parse
//@ assumes=option map is the fixed-capacity array model
c03_total!(c03_framing_6, 6, 6, true);

//@ props=C03 tier=quick timeout=850 mem=14 cap=2 ilist=1 name=c03_total_6
//@ functions=Packet::from_bytes
//@ bounds=every byte string of length 0..6 (length and all bytes symbolic). Also the witness harness from which concrete counterexamples of the larger harnesses are extracted (trace generation on 8 bytes does not fit in memory)
//@ what=never panics/overflows/reads out of bounds (Kani's implicit checks); must-reject => Err; must-accept => Ok. 7 and 8 bytes (11 and 20 minutes) are in the thorough tier: a quick check has to finish within 15 minutes
c03_total!(c03_total_6, 6, 6, false);

//@ props=C03,C02 tier=thorough timeout=2400 mem=24 cap=3 ilist=1 witness=c03_total_6 name=c03_framing_7
//@ functions=Packet::from_bytes, HeaderRaw::try_from, Header::from_raw, MessageClass::from
//@ bounds=every byte string of length 0..7 (length and all bytes symbolic); unwind 6
//@ what=as c03_total_8 plus the framing of an accepted well-formed datagram: version, type, token length, code, id, number of option values, each option's number and length (at a symbolic index, repeated numbers in wire order), payload length - all equal to the RFC 7252 reference parse. Byte contents are compared by c03_content_*
//@ assumes=option map is the fixed-capacity array model
c03_total!(c03_framing_7, 7, 6, true);

//@ props=C03,C02 tier=experimental timeout=3600 mem=32 cap=4 ilist=1 name=c03_framing_8
//@ functions=Packet::from_bytes
//@ bounds=every byte string of length 0..8; unwind 7
//@ what=as c03_framing_7 at 8 bytes
c03_total!(c03_framing_8, 8, 7, true);

/// Content equality on datagrams of a concrete layout: token length, option length nibbles and
/// extension classes are fixed by the shape, every other bit (deltas, extended delta bytes,
/// values, ids, token, payload) is symbolic. Keeps every `to_vec()` length concrete.
macro_rules! c03_content {
    ($name:ident, $n:expr, $build:expr) => {
        #[kani::proof]
        #[kani::unwind(7)]
        #[kani::stub(core::fmt::write, crate::verif_harness::stub_write)]
        fn $name() {
            const N: usize = $n;
            let mut buf: [u8; N] = kani::any();
            ($build)(&mut buf);
            let r = ref_parse(&buf, N, 4);
            match Packet::from_bytes(&buf[..]) {
                Ok(p) => {
                    assert!(r.verdict != V_REJECT, "C03: malformed datagram accepted");
                    if r.verdict == V_ACCEPT {
                        c03_compare(&p, &buf, N, &r, 4, true);
                        kani::cover!(r.nopts >= 1 && r.opts[0].number > 100, "an accepted extended delta");
                    }
                    core::mem::forget(p);
                }
                Err(_) => {
                    assert!(r.verdict != V_ACCEPT, "C03: well-formed version-1 datagram rejected");
                }
            }
        }
    };
}

//@ props=C03,C02 tier=quick timeout=900 mem=4 cap=2 ilist=1 name=c03_content_a
//@ functions=Packet::from_bytes
//@ bounds=layout: first byte 0x52 (version 1, NON, TKL 2), ONE option (delta 13 + one extended byte symbolic, length 2), 0xFF, 2 payload bytes = 13 bytes; every other bit (code, id, token, extended delta, value, payload) symbolic; layout-determining bytes are constants so that all lengths are constants for CBMC
//@ what=an accepted datagram yields token, option value and payload byte for byte as in the datagram
//@ outside=byte contents with two or more options in one query ran out of memory (28 GB); their framing is c03_framing_7
c03_content!(c03_content_a, 13, |b: &mut [u8; 13]| {
    b[0] = 0x52; // version 1, NON, TKL 2 - every layout-determining byte is a constant
    kani::assume(b[1] != 0);
    b[6] = 0xD2;
    b[10] = 0xFF;
});

//@ props=C03,C02 tier=quick timeout=1200 mem=10 cap=2 ilist=1 name=c03_content_b
//@ functions=Packet::from_bytes
//@ bounds=layout: first byte 0x40 (version 1, CON, TKL 0), ONE option (delta 14 + two extended bytes symbolic, length 13 + extended byte 0 => 13 value bytes), no payload = 4 + 4 + 13 = 21 bytes; every other bit symbolic
//@ what=as c03_content_a; reaches an accepted two-byte extended delta and a one-byte extended length
c03_content!(c03_content_b, 21, |b: &mut [u8; 21]| {
    b[0] = 0x40; // version 1, CON, TKL 0
    kani::assume(b[1] != 0);
    b[4] = 0xED;
    b[7] = 0;
});

//@ props=C03,C02 tier=thorough timeout=1800 mem=19 cap=3 ilist=1 name=c03_content_c
//@ functions=Packet::from_bytes
//@ bounds=layout: first byte 0x61 (version 1, ACK, TKL 1), TWO options: (delta 13 + extended byte symbolic, length 1) and (delta 13 + extended byte symbolic, length 2), 0xFF, 1 payload byte = 14 bytes; all other bits symbolic
//@ what=as c03_content_a with two options whose numbers are symbolic through their extended delta bytes
c03_content!(c03_content_c, 14, |b: &mut [u8; 14]| {
    b[0] = 0x61;
    kani::assume(b[1] != 0);
    b[5] = 0xD1;
    b[8] = 0xD2;
    b[12] = 0xFF;
});

//@ props=C03 tier=experimental timeout=3600 mem=32 cap=7 ilist=1 name=c03_total_11
//@ functions=Packet::from_bytes, HeaderRaw::try_from, Header::from_raw, MessageClass::from
//@ bounds=every byte string of length 0..11 (length and all bytes symbolic); unwind 10
//@ what=as c03_total_8 at 11 bytes: room for a token plus two extended-delta options, or the 65535 option-number overflow via two 3-byte headers
c03_total!(c03_total_11, 11, 10, false);

// ---------------------------------------------------------------------------------------------
// C01: encoder = RFC 7252 wire image
// ---------------------------------------------------------------------------------------------
fn any_type(tn: u8) -> crate::MessageType {
    match tn & 3 {
        0 => crate::MessageType::Confirmable,
        1 => crate::MessageType::NonConfirmable,
        2 => crate::MessageType::Acknowledgement,
        _ => crate::MessageType::Reset,
    }
}

fn one_value(v: Vec<u8>) -> LinkedList<Vec<u8>> {
    let mut l = LinkedList::new();
    l.push_back(v);
    l
}

//@ props=C01,C02 tier=quick timeout=900 mem=4 cap=2
//@ functions=Packet::to_bytes_internal, Packet::set_token, Header::set_version, Header::set_type, Header::to_raw, HeaderRaw::serialize_into
//@ bounds=version 0..3 and type set in both orders, code: all 256, message id: all 65536, token: length 0..8 with symbolic bytes; no options, no payload
//@ what=bytes = [Ver<<6|T<<4|TKL, code, id_hi, id_lo, token...] exactly
#[kani::proof]
#[kani::unwind(6)]
#[kani::stub(core::fmt::write, crate::verif_harness::stub_write)]
fn c01_header_token() {
    let mut p = Packet::new();
    let b0: u8 = kani::any();
    if kani::any() {
        p.header.set_version(b0 >> 6);
        p.header.set_type(any_type(b0 >> 4));
    } else {
        p.header.set_type(any_type(b0 >> 4));
        p.header.set_version(b0 >> 6);
    }
    let code: u8 = kani::any();
    p.header.code = MessageClass::from(code);
    let mid: u16 = kani::any();
    p.header.message_id = mid;
    let tok: [u8; 8] = kani::any();
    let tl: usize = kani::any();
    kani::assume(tl <= 8);
    p.set_token(tok[..tl].to_vec());
    let bytes = match p.to_bytes() {
        Ok(b) => b,
        Err(_) => { assert!(false, "C01: a small message encodes"); return; }
    };
    assert!(bytes.len() == 4 + tl, "C01: header + token length");
    assert!(bytes[0] == (b0 & 0xF0) | tl as u8, "C01: first byte = Ver<<6 | T<<4 | TKL");
    assert!(bytes[1] == code, "C01: code byte");
    assert!(bytes[2] == (mid >> 8) as u8 && bytes[3] == mid as u8, "C01: message id big-endian");
    let i: usize = kani::any();
    if i < tl {
        assert!(bytes[4 + i] == tok[i], "C01: token bytes follow the header");
    }
    kani::cover!(tl == 8 && (b0 >> 6) == 0, "eight-byte token, version 0");
    kani::cover!(tl == 0, "no token");
    core::mem::forget(p);
}

//@ props=C01,C02 tier=quick timeout=900 mem=4 cap=2
//@ functions=Packet::to_bytes_internal (payload marker)
//@ bounds=code: all 256; all 4 types; token length 3 (concrete) with symbolic bytes; payload length 0..3 with symbolic bytes
//@ what=a 0xFF marker and the payload follow the token iff the code is not 0.00 and the payload is non-empty; a 0.00 message carries neither
#[kani::proof]
#[kani::unwind(6)]
#[kani::stub(core::fmt::write, crate::verif_harness::stub_write)]
fn c01_payload_marker() {
    let mut p = Packet::new();
    let code: u8 = kani::any();
    p.header.code = MessageClass::from(code);
    p.header.set_type(any_type(kani::any()));
    let tok: [u8; 3] = kani::any();
    p.set_token(tok.to_vec());
    let pay: [u8; 3] = kani::any();
    let pl: usize = kani::any();
    kani::assume(pl <= 3);
    p.payload = pay[..pl].to_vec();
    let bytes = match p.to_bytes() {
        Ok(b) => b,
        Err(_) => { assert!(false, "C01: a small message encodes"); return; }
    };
    let sent = code != 0 && pl > 0;
    assert!(bytes.len() == 7 + if sent { 1 + pl } else { 0 }, "C01: marker and payload are present iff a payload is sent");
    assert!(bytes[4] == tok[0] && bytes[6] == tok[2]);
    if sent {
        assert!(bytes[7] == 0xFF, "C01: payload marker");
        let i: usize = kani::any();
        if i < pl {
            assert!(bytes[8 + i] == pay[i], "C01: payload bytes follow the marker");
        }
    }
    kani::cover!(code == 0 && pl > 0, "0.00 with a payload set: nothing is sent");
    kani::cover!(sent && pl == 3, "three-byte payload");
    kani::cover!(code != 0 && pl == 0, "no payload, no marker");
    core::mem::forget(p);
}

/// One option, number and value length given by the caller (either may be symbolic - not both: a
/// symbolic number together with a symbolic length did not finish in 30 minutes).
fn c01_one_option(n1: u16, l: usize, every_value_byte: bool) {
    let mut p = Packet::new();
    p.header.message_id = kani::any();
    // a symbolic fill byte only when every value byte is read back (symbolic length: zero fill, as in C04)
    let x: u8 = if every_value_byte { kani::any() } else { 0 };
    p.options.verif_push_sorted(n1, one_value(vec![x; l]));
    let mut h = [0u8; 5];
    let hn = ref_opt_hdr(n1 as u32, l as u32, &mut h);
    let bytes = match p.to_bytes_unlimited() {
        Ok(b) => b,
        Err(_) => { assert!(false, "C01: encodes"); return; }
    };
    assert!(bytes.len() == 4 + hn + l, "C01: total length = header + option header + value");
    let i: usize = kani::any();
    if i < hn {
        assert!(bytes[4 + i] == h[i], "C01: option header = RFC 7252 delta/length nibbles and extended fields");
    }
    if every_value_byte {
        let j: usize = kani::any();
        if j < l {
            assert!(bytes[4 + hn + j] == x, "C01: option value bytes follow the option header");
        }
    }
    // (symbolic length: the value bytes are not read back - a read at a symbolic offset of a buffer of symbolic
    // length did not finish in 30 minutes; whole values are compared in the concrete-length harnesses)
    core::mem::forget(p);
}

macro_rules! c01_one_option_num {
    ($name:ident, $l:expr) => {
        #[kani::proof]
        #[kani::unwind(6)]
        #[kani::stub(core::fmt::write, crate::verif_harness::stub_write)]
        fn $name() {
            let n1: u16 = kani::any();
            c01_one_option(n1, $l, true);
            kani::cover!(n1 == 258, "No-Response as the first option");
            kani::cover!(n1 >= 256 && n1 <= 268, "number in the gap 256..268");
            kani::cover!(n1 == 269, "delta exactly 269");
            kani::cover!(n1 == 12, "delta 12");
            kani::cover!(n1 == 65535, "largest number");
        }
    };
}

macro_rules! c01_one_option_length {
    ($name:ident, $n:expr) => {
        #[kani::proof]
        #[kani::unwind(6)]
        #[kani::stub(core::fmt::write, crate::verif_harness::stub_write)]
        fn $name() {
            let l: usize = kani::any();
            kani::assume(l <= 300);
            c01_one_option($n, l, false);
            kani::cover!(l == 12, "length 12");
            kani::cover!(l == 13, "length 13");
            kani::cover!(l == 268, "length 268");
            kani::cover!(l == 269, "length 269");
            kani::cover!(l == 300, "length 300");
        }
    };
}

//@ props=C01,C02 tier=quick timeout=1200 mem=4 cap=2 name=c01_one_option_num_l1
//@ functions=Packet::to_bytes_internal (option header: delta nibble and extended delta)
//@ bounds=one option: number = every u16 (first option: delta = number, incl. 258 and the gap 256..268), value of 1 symbolic byte; message id symbolic
//@ what=option header bytes equal the RFC 7252 section 3.1 reference encoding of (delta, length); value follows; total length exact
//@ assumes=the entry is placed in slot 0 of the array model (sorting is std's job)
c01_one_option_num!(c01_one_option_num_l1, 1);

//@ props=C01,C02 tier=quick timeout=1200 mem=4 cap=2 name=c01_one_option_num_l13
//@ functions=Packet::to_bytes_internal
//@ bounds=as c01_one_option_num_l1 with a value of 13 bytes (extended delta and extended length in one header)
//@ what=as c01_one_option_num_l1
c01_one_option_num!(c01_one_option_num_l13, 13);

//@ props=C01 tier=experimental timeout=1800 mem=13 cap=2 name=c01_one_option_num_l269
//@ functions=Packet::to_bytes_internal
//@ bounds=as c01_one_option_num_l1 with a value of 269 bytes (two-byte extended length next to every delta class)
//@ what=as c01_one_option_num_l1
c01_one_option_num!(c01_one_option_num_l269, 269);

//@ props=C01 tier=thorough timeout=1800 mem=13 cap=2 name=c01_one_option_num_l0
//@ functions=Packet::to_bytes_internal
//@ bounds=as c01_one_option_num_l1 with an empty value
//@ what=as c01_one_option_num_l1
c01_one_option_num!(c01_one_option_num_l0, 0);

//@ props=C01 tier=quick timeout=1800 mem=13 cap=2 name=c01_one_option_len_258
//@ functions=Packet::to_bytes_internal (length nibble and extended length)
//@ bounds=one option number 258 (No-Response, delta in the one-byte extension just below 269), value length symbolic 0..300 (both sides of 13 and 269), zero-filled value
//@ what=as c01_one_option_num_l1
c01_one_option_length!(c01_one_option_len_258, 258);

//@ props=C01 tier=thorough timeout=1800 mem=13 cap=2 name=c01_one_option_len_11
//@ functions=Packet::to_bytes_internal
//@ bounds=one option number 11 (Uri-Path), value length symbolic 0..300
//@ what=as c01_one_option_num_l1
c01_one_option_length!(c01_one_option_len_11, 11);

//@ props=C01 tier=thorough timeout=1800 mem=13 cap=2 name=c01_one_option_len_2000
//@ functions=Packet::to_bytes_internal
//@ bounds=one option number 2000 (two-byte extended delta), value length symbolic 0..300
//@ what=as c01_one_option_num_l1
c01_one_option_length!(c01_one_option_len_2000, 2000);

//@ props=C01,C02 tier=quick timeout=1800 mem=7 cap=3
//@ functions=Packet::to_bytes_internal (running delta)
//@ bounds=two options in slots 0 and 1 with symbolic numbers n1 < n2 (every pair), one symbolic value byte each; message id symbolic
//@ what=first header encodes n1, second encodes n2 - n1; values in place; total length exact
//@ assumes=entries placed in ascending slots of the array model (n1 < n2 assumed)
#[kani::proof]
#[kani::unwind(6)]
#[kani::stub(core::fmt::write, crate::verif_harness::stub_write)]
fn c01_two_options() {
    let mut p = Packet::new();
    p.header.message_id = kani::any();
    let n1: u16 = kani::any();
    let n2: u16 = kani::any();
    kani::assume(n1 < n2);
    let a: u8 = kani::any();
    let b: u8 = kani::any();
    p.options.verif_push_sorted(n1, one_value(vec![a]));
    p.options.verif_push_sorted(n2, one_value(vec![b]));
    let mut h1 = [0u8; 5];
    let mut h2 = [0u8; 5];
    let hn1 = ref_opt_hdr(n1 as u32, 1, &mut h1);
    let hn2 = ref_opt_hdr((n2 - n1) as u32, 1, &mut h2);
    let bytes = match p.to_bytes_unlimited() {
        Ok(b) => b,
        Err(_) => { assert!(false, "C01: encodes"); return; }
    };
    assert!(bytes.len() == 4 + hn1 + 1 + hn2 + 1, "C01: total length with two options");
    let i: usize = kani::any();
    if i < hn1 {
        assert!(bytes[4 + i] == h1[i], "C01: first option header encodes its number");
    }
    assert!(bytes[4 + hn1] == a, "C01: first value");
    let j: usize = kani::any();
    if j < hn2 {
        assert!(bytes[4 + hn1 + 1 + j] == h2[j], "C01: second option header encodes the difference of the numbers");
    }
    assert!(bytes[4 + hn1 + 1 + hn2] == b, "C01: second value");
    kani::cover!(n2 - n1 == 13, "delta 13");
    kani::cover!(n2 - n1 == 269 && n1 == 12, "delta 269 after delta 12");
    kani::cover!(n1 == 0 && n2 == 65535, "largest delta");
    core::mem::forget(p);
}

macro_rules! c01_same_number {
    ($name:ident, $n:expr) => {
        #[kani::proof]
        #[kani::unwind(6)]
        #[kani::stub(core::fmt::write, crate::verif_harness::stub_write)]
        fn $name() {
            let mut p = Packet::new();
            let n1: u16 = $n;
            let a: u8 = kani::any();
            let c: [u8; 2] = kani::any();
            p.add_option(CoapOption::from(n1), vec![a]);
            p.add_option(CoapOption::from(n1), c.to_vec());
            let bytes = match p.to_bytes_unlimited() {
                Ok(b) => b,
                Err(_) => { assert!(false, "C01: encodes"); return; }
            };
            let mut h = [0u8; 5];
            let hn = ref_opt_hdr(n1 as u32, 1, &mut h);
            assert!(bytes.len() == 4 + hn + 1 + 1 + 2, "C01: two values under one number");
            let i: usize = kani::any();
            if i < hn {
                assert!(bytes[4 + i] == h[i], "C01: first of the repeated options carries the number");
            }
            assert!(bytes[4 + hn] == a, "C01: first value");
            assert!(bytes[4 + hn + 1] == 0x02 && bytes[4 + hn + 2] == c[0] && bytes[4 + hn + 3] == c[1], "C01: repeated option: delta 0, in insertion order");
            kani::cover!(true, "encoded");
            core::mem::forget(p);
        }
    };
}

//@ props=C01 tier=quick timeout=1200 mem=4 cap=2 name=c01_same_number_11
//@ functions=Packet::add_option (repeat), Packet::to_bytes_internal (delta 0)
//@ bounds=option number 11 (concrete), two values of 1 and 2 symbolic bytes added through the public add_option
//@ what=repeated options are emitted in insertion order, the second with delta 0
//@ outside=a symbolic number next to two stored values ran out of memory; an empty middle value likewise (zero-capacity Vec)
c01_same_number!(c01_same_number_11, 11);

//@ props=C01 tier=thorough timeout=1200 mem=12 cap=2 name=c01_same_number_258
//@ functions=Packet::add_option (repeat), Packet::to_bytes_internal (delta 0)
//@ bounds=option number 258 (No-Response), two values of 1 and 2 symbolic bytes
//@ what=as c01_same_number_11
c01_same_number!(c01_same_number_258, 258);

//@ props=C01 tier=quick timeout=1200 mem=20 cap=3
//@ functions=Packet::clear_option, Packet::add_option, Packet::set_option, Packet::to_bytes_internal (empty value list)
//@ bounds=numbers 11 and 12 (concrete), symbolic value bytes; option 11 is cleared and optionally re-added; option 12 follows
//@ what=a cleared option emits nothing and does not disturb the delta of the next option; re-adding emits exactly the new value
#[kani::proof]
#[kani::unwind(6)]
#[kani::stub(core::fmt::write, crate::verif_harness::stub_write)]
fn c01_clear_readd() {
    let mut p = Packet::new();
    let a: u8 = kani::any();
    let b: u8 = kani::any();
    let c: u8 = kani::any();
    p.add_option(CoapOption::UriPath, vec![a]);
    p.add_option(CoapOption::UriPath, vec![a, a]);
    p.add_option(CoapOption::ContentFormat, vec![b]);
    p.clear_option(CoapOption::UriPath);
    let readd: bool = kani::any();
    if readd {
        p.add_option(CoapOption::UriPath, vec![c]);
    }
    let bytes = match p.to_bytes_unlimited() {
        Ok(b) => b,
        Err(_) => { assert!(false, "C01: encodes"); return; }
    };
    if readd {
        assert!(bytes.len() == 4 + 2 + 2, "C01: cleared and re-added option emits only the new value");
        assert!(bytes[4] == 0xB1 && bytes[5] == c && bytes[6] == 0x11 && bytes[7] == b, "C01: re-added option then the next option with delta 1");
        kani::cover!(true, "re-added");
    } else {
        assert!(bytes.len() == 4 + 2, "C01: a cleared option emits nothing");
        assert!(bytes[4] == 0xC1 && bytes[5] == b, "C01: the next option's delta counts from the last emitted option");
        kani::cover!(true, "cleared only");
    }
    core::mem::forget(p);
}

macro_rules! c01_api_order {
    ($name:ident, $n1:expr, $n2:expr, $descending:expr) => {
        #[kani::proof]
        #[kani::unwind(6)]
        #[kani::stub(core::fmt::write, crate::verif_harness::stub_write)]
        fn $name() {
            let (n1, n2): (u16, u16) = ($n1, $n2);
            let a: u8 = kani::any();
            let b: u8 = kani::any();
            let mut p = Packet::new();
            if $descending {
                p.add_option(CoapOption::from(n2), vec![b]);
                p.add_option(CoapOption::from(n1), vec![a]);
            } else {
                p.add_option(CoapOption::from(n1), vec![a]);
                p.add_option(CoapOption::from(n2), vec![b]);
            }
            let bytes = match p.to_bytes_unlimited() {
                Ok(b) => b,
                Err(_) => { assert!(false, "C01: encodes"); return; }
            };
            let mut h1 = [0u8; 5];
            let mut h2 = [0u8; 5];
            let hn1 = ref_opt_hdr(n1 as u32, 1, &mut h1);
            let hn2 = ref_opt_hdr((n2 - n1) as u32, 1, &mut h2);
            assert!(bytes.len() == 4 + hn1 + 1 + hn2 + 1, "C01: total length");
            assert!(hn1 == 1 && bytes[4] == h1[0] && bytes[5] == a, "C01: lower number first whatever the call order");
            let j: usize = kani::any();
            if j < hn2 {
                assert!(bytes[6 + j] == h2[j], "C01: second header = difference of the numbers");
            }
            assert!(bytes[6 + hn2] == b, "C01: second value");
            kani::cover!(true, "encoded");
            core::mem::forget(p);
        }
    };
}

//@ props=C01 tier=quick timeout=1500 mem=4 cap=3 name=c01_api_order_desc_300
//@ functions=Packet::add_option (descending call order), Packet::to_bytes_internal
//@ bounds=numbers 11 and 300 (concrete; delta 289 = two-byte extension) added through the public add_option with the HIGHER number first; symbolic one-byte values
//@ what=the encoding does not depend on the order of the add_option calls: ascending numbers, deltas between them
//@ outside=the call order is concrete per harness (a symbolic order made the map shape symbolic: out of memory)
c01_api_order!(c01_api_order_desc_300, 11, 300, true);

//@ props=C01 tier=quick timeout=1500 mem=4 cap=3 name=c01_api_order_desc_272
//@ functions=Packet::add_option (descending call order), Packet::to_bytes_internal
//@ bounds=numbers 3 and 272 (delta exactly 269), higher number first; symbolic one-byte values
//@ what=as c01_api_order_desc_300
c01_api_order!(c01_api_order_desc_272, 3, 272, true);

//@ props=C01 tier=thorough timeout=1500 mem=14 cap=3 name=c01_api_order_asc_23
//@ functions=Packet::add_option (ascending call order), Packet::to_bytes_internal
//@ bounds=numbers 11 and 23 (delta 12), lower number first; symbolic one-byte values
//@ what=as c01_api_order_desc_300
c01_api_order!(c01_api_order_asc_23, 11, 23, false);

//@ props=C01 tier=thorough timeout=1500 mem=14 cap=3 name=c01_api_order_desc_24
//@ functions=Packet::add_option (descending call order), Packet::to_bytes_internal
//@ bounds=numbers 11 and 24 (delta 13), higher number first; symbolic one-byte values
//@ what=as c01_api_order_desc_300
c01_api_order!(c01_api_order_desc_24, 11, 24, true);

//@ props=C01 tier=experimental timeout=3000 mem=24 cap=4
//@ functions=Packet::to_bytes_internal (running delta over three options)
//@ bounds=three options in slots 0..2 with symbolic numbers n1 < n2 < n3, value lengths 0..2 (symbolic) of one symbolic byte; payload of one symbolic byte, code symbolic
//@ what=each header encodes the difference to the previous number and its own length; marker and payload follow iff code != 0.00
//@ assumes=entries placed in ascending slots of the array model
#[kani::proof]
#[kani::unwind(6)]
#[kani::stub(core::fmt::write, crate::verif_harness::stub_write)]
fn c01_three_options() {
    let mut p = Packet::new();
    let code: u8 = kani::any();
    p.header.code = MessageClass::from(code);
    let n1: u16 = kani::any();
    let n2: u16 = kani::any();
    let n3: u16 = kani::any();
    kani::assume(n1 < n2 && n2 < n3);
    let (l1, l2, l3): (usize, usize, usize) = (kani::any(), kani::any(), kani::any());
    kani::assume(l1 <= 2 && l2 <= 2 && l3 <= 2);
    let x: u8 = kani::any();
    p.options.verif_push_sorted(n1, one_value(vec![x; l1]));
    p.options.verif_push_sorted(n2, one_value(vec![x; l2]));
    p.options.verif_push_sorted(n3, one_value(vec![x; l3]));
    let pay: u8 = kani::any();
    p.payload = vec![pay];
    let mut h1 = [0u8; 5];
    let mut h2 = [0u8; 5];
    let mut h3 = [0u8; 5];
    let hn1 = ref_opt_hdr(n1 as u32, l1 as u32, &mut h1);
    let hn2 = ref_opt_hdr((n2 - n1) as u32, l2 as u32, &mut h2);
    let hn3 = ref_opt_hdr((n3 - n2) as u32, l3 as u32, &mut h3);
    let bytes = match p.to_bytes_unlimited() {
        Ok(b) => b,
        Err(_) => { assert!(false, "C01: encodes"); return; }
    };
    let o2 = 4 + hn1 + l1;
    let o3 = o2 + hn2 + l2;
    let end = o3 + hn3 + l3;
    assert!(bytes.len() == end + if code != 0 { 2 } else { 0 }, "C01: total length with three options");
    let i: usize = kani::any();
    if i < hn1 { assert!(bytes[4 + i] == h1[i], "C01: first header"); }
    if i < hn2 { assert!(bytes[o2 + i] == h2[i], "C01: second header = n2 - n1"); }
    if i < hn3 { assert!(bytes[o3 + i] == h3[i], "C01: third header = n3 - n2"); }
    if code != 0 {
        assert!(bytes[end] == 0xFF && bytes[end + 1] == pay, "C01: marker and payload after the options");
    }
    kani::cover!(n3 - n2 == 13 && n2 - n1 == 269, "mixed extension classes");
    core::mem::forget(p);
}

// ---------------------------------------------------------------------------------------------
// C04: size limit and buffers
// ---------------------------------------------------------------------------------------------
fn c04_check(p: &Packet, exact: usize) {
    let limit: usize = kani::any();
    match p.to_bytes_with_limit(limit) {
        Ok(b) => {
            assert!(exact <= limit, "C04: a message longer than the limit is refused");
            assert!(b.len() == exact, "C04: output has exactly the wire length");
            kani::cover!(exact == limit, "exactly at the limit");
        }
        Err(e) => {
            assert!(exact > limit, "C04: a message within the limit is serialised");
            assert!(e == MessageError::InvalidPacketLength, "C04: the refusal is a packet-length error");
            kani::cover!(exact == limit + 1, "one byte over the limit");
        }
    }
    match p.to_bytes() {
        Ok(b) => {
            assert!(exact <= Packet::MAX_SIZE, "C04: default limit");
            assert!(b.len() == exact);
        }
        Err(e) => {
            assert!(exact > Packet::MAX_SIZE, "C04: default limit is MAX_SIZE");
            assert!(e == MessageError::InvalidPacketLength);
        }
    }
    match p.to_bytes_unlimited() {
        Ok(b) => assert!(b.len() == exact, "C04: unlimited output has exactly the wire length"),
        Err(_) => assert!(false, "C04: the unlimited call does not refuse on size"),
    }
}

//@ props=C04 tier=quick timeout=1500 mem=4 cap=2
//@ functions=Packet::to_bytes, Packet::to_bytes_with_limit, Packet::to_bytes_unlimited, Packet::to_bytes_internal
//@ bounds=no options, code: all 256, payload length symbolic 0..1400 (zero bytes), limit: every usize
//@ what=Ok with exactly the wire length (4 + marker and payload when a payload is sent) iff that length <= limit, else a packet-length error; to_bytes() = limit MAX_SIZE; unlimited always Ok; all raw copies stay inside their reservations (Kani's pointer checks)
#[kani::proof]
#[kani::unwind(6)]
#[kani::stub(core::fmt::write, crate::verif_harness::stub_write)]
fn c04_limit_payload() {
    let mut p = Packet::new();
    let code: u8 = kani::any();
    p.header.code = MessageClass::from(code);
    let pl: usize = kani::any();
    kani::assume(pl <= 1400);
    p.payload = vec![0u8; pl];
    let exact = 4 + if code != 0 && pl > 0 { 1 + pl } else { 0 };
    c04_check(&p, exact);
    kani::cover!(code == 0 && pl == 1300, "0.00 message with a large payload set");
    kani::cover!(code != 0 && exact == 1280, "payload lands on the default limit");
    core::mem::forget(p);
}

//@ props=C04 tier=quick timeout=1500 mem=4 cap=2
//@ functions=Packet::to_bytes_with_limit, Packet::to_bytes_internal
//@ bounds=one option (number 15 or 300: one- and three-byte delta) with value length symbolic 0..1400, token 2 bytes, no payload, limit: every usize
//@ what=the limit counts option header and value bytes exactly
#[kani::proof]
#[kani::unwind(6)]
#[kani::stub(core::fmt::write, crate::verif_harness::stub_write)]
fn c04_limit_option() {
    let mut p = Packet::new();
    p.set_token(vec![1, 2]);
    let big: bool = kani::any();
    let n: u16 = if big { 300 } else { 15 };
    let l: usize = kani::any();
    kani::assume(l <= 1400);
    p.options.verif_push_sorted(n, one_value(vec![0u8; l]));
    let mut h = [0u8; 5];
    let hn = ref_opt_hdr(n as u32, l as u32, &mut h);
    let exact = 4 + 2 + hn + l;
    c04_check(&p, exact);
    kani::cover!(exact == 1281, "one byte over the default limit through an option");
    kani::cover!(big && l == 269, "extended delta and extended length");
    core::mem::forget(p);
}

//@ props=C04 tier=quick timeout=1500 mem=5 cap=2
//@ functions=Packet::to_bytes_with_limit, Packet::to_bytes_internal
//@ bounds=token length symbolic 0..8, one option of 1 byte, payload of 1 byte, code symbolic, limit: every usize
//@ what=the limit counts the token and the marker
#[kani::proof]
#[kani::unwind(6)]
#[kani::stub(core::fmt::write, crate::verif_harness::stub_write)]
fn c04_limit_token() {
    let mut p = Packet::new();
    let code: u8 = kani::any();
    p.header.code = MessageClass::from(code);
    let tl: usize = kani::any();
    kani::assume(tl <= 8);
    p.set_token(vec![9u8; tl]);
    p.options.verif_push_sorted(11, one_value(vec![b'x']));
    p.payload = vec![1];
    let exact = 4 + tl + 2 + if code != 0 { 2 } else { 0 };
    c04_check(&p, exact);
    kani::cover!(tl == 8 && code != 0, "eight-byte token with payload");
    core::mem::forget(p);
}

//@ props=C04 tier=thorough timeout=3000 mem=24 cap=2
//@ functions=Packet::to_bytes_internal (16-bit extended length)
//@ bounds=one option whose value length is symbolic in 65790..65820 (around 65535 + 269 = 65804)
//@ what=lengths up to 65804 are emitted with the correct 16-bit extended length; longer values are refused rather than emitted with a truncated length
#[kani::proof]
#[kani::unwind(6)]
#[kani::stub(core::fmt::write, crate::verif_harness::stub_write)]
fn c04_len16() {
    let mut p = Packet::new();
    let l: usize = kani::any();
    kani::assume(l >= 65790 && l <= 65820);
    p.options.verif_push_sorted(1, one_value(vec![0u8; l]));
    match p.to_bytes_unlimited() {
        Ok(b) => {
            assert!(l <= 65535 + 269, "C04: an option value too long for the 16-bit length field is refused");
            assert!(b.len() == 4 + 3 + l);
            let ext = l - 269;
            assert!(b[4] == 0x1E && b[5] == (ext >> 8) as u8 && b[6] == ext as u8, "C04: 16-bit extended length");
            kani::cover!(l == 65804, "largest encodable length");
        }
        Err(_) => {
            assert!(l > 65535 + 269, "C04: encodable lengths are not refused");
            kani::cover!(l == 65805, "first unencodable length");
        }
    }
    core::mem::forget(p);
}

// ---------------------------------------------------------------------------------------------
// C19 / C06: typed accessors on Packet
// ---------------------------------------------------------------------------------------------

//@ props=C19 tier=quick timeout=1200 mem=7 cap=2
//@ functions=Packet::set_content_format, Packet::get_content_format, Packet::add_option_as::<OptionValueU16>, Packet::get_first_option_as
//@ bounds=format: every registered content format (via try_from of a symbolic usize); pre-state: no Content-Format, or one earlier value set through the same setter (any registered format), or one raw value of 0..3 symbolic bytes
//@ what=after set_content_format(f): get_content_format() = Some(f) and the raw option is exactly one value = shortest big-endian id, whatever was there before; get on raw bytes: named format iff the big-endian value (length <= 2) is a registered id
#[kani::proof]
#[kani::unwind(6)]
#[kani::stub(core::fmt::write, crate::verif_harness::stub_write)]
fn c19_content_format() {
    let mut p = Packet::new();
    let pre: u8 = kani::any();
    kani::assume(pre < 3);
    let raw: [u8; 3] = kani::any();
    let rl: usize = kani::any();
    kani::assume(rl <= 3);
    let g: usize = kani::any();
    match pre {
        0 => {}
        1 => {
            if let Ok(f0) = ContentFormat::try_from(g) {
                p.set_content_format(f0);
                assert!(p.get_content_format() == Some(f0), "C19: set_content_format then get_content_format on a fresh message");
            }
        }
        _ => {
            p.add_option(CoapOption::ContentFormat, raw[..rl].to_vec());
            // getter on raw bytes
            let mut v: usize = 0;
            let mut k = 0;
            while k < 3 {
                if k < rl {
                    v = v << 8 | raw[k] as usize;
                }
                k += 1;
            }
            match p.get_content_format() {
                Some(f) => {
                    assert!(rl <= 2, "C19: a Content-Format value longer than two bytes names no format");
                    assert!(usize::from(f) == v, "C19: get_content_format reads the big-endian id");
                }
                None => assert!(rl > 2 || ref_content_format(v).is_none(), "C19: a registered id surfaces as its format"),
            }
        }
    }
    let n: usize = kani::any();
    if let Ok(f) = ContentFormat::try_from(n) {
        p.set_content_format(f);
        assert!(p.get_content_format() == Some(f), "C19: what set_content_format stores is what get_content_format shows, whatever was there before");
        match p.get_option(CoapOption::ContentFormat) {
            Some(list) => {
                assert!(list.len() == 1, "C19: set_content_format leaves exactly one Content-Format value");
                let (exp, en) = ref_uint(n as u64);
                let v = list.front().unwrap();
                assert!(v.len() == en, "C19: Content-Format is stored as the shortest big-endian id");
                let i: usize = kani::any();
                if i < en {
                    assert!(v[i] == exp[i], "C19: Content-Format is stored as the shortest big-endian id");
                }
            }
            None => assert!(false, "C19: set_content_format stores the option"),
        }
        kani::cover!(pre == 1 && n == 50, "JSON set over an earlier format");
        kani::cover!(pre == 2 && rl == 2, "set over a raw two-byte value");
        kani::cover!(n == 0, "text/plain (empty value)");
    }
    core::mem::forget(p);
}

//@ props=C06 tier=quick timeout=1200 mem=4 cap=3
//@ functions=Packet::add_option_as, Packet::set_options_as, Packet::get_options_as, Packet::get_first_option_as, Packet::get_option, Packet::get_first_option
//@ bounds=option Size1 gets two u32 values (every pair) through add_option_as - checked on the raw stored bytes; option Size2 gets one u32 (every value) - read back through the typed getters; then a u16 through set_options_as
//@ what=the typed setters store exactly the wrapper encodings, element by element and in order; the typed getters return the same number; a narrower wrapper accepts only what fits; set_options_as replaces
//@ outside=typed getters on a list of two or more values: CBMC reports a spurious mismatch for Vec<u8>::clone() of an element of a Vec<Vec<u8>> after two pushes (does not reproduce natively; minimal case kept in DESIGN.md section 8)
#[kani::proof]
#[kani::unwind(6)]
#[kani::stub(core::fmt::write, crate::verif_harness::stub_write)]
fn c06_typed_accessors() {
    let mut p = Packet::new();
    let a: u32 = kani::any();
    let b: u32 = kani::any();
    p.add_option_as(CoapOption::Size1, OptionValueU32(a));
    p.add_option_as(CoapOption::Size1, OptionValueU32(b));
    let (ea, na) = ref_uint(a as u64);
    let (eb, nb) = ref_uint(b as u64);
    match p.get_option(CoapOption::Size1) {
        Some(list) => {
            assert!(list.len() == 2, "C06: two typed values stored");
            let first = list.front().unwrap();
            let second = list.back().unwrap();
            assert!(first.len() == na && second.len() == nb, "C06: stored bytes are the wrapper encodings");
            let i: usize = kani::any();
            if i < na { assert!(first[i] == ea[i], "C06: first stored value = minimal big-endian"); }
            if i < nb { assert!(second[i] == eb[i], "C06: second stored value = minimal big-endian, order kept"); }
        }
        None => assert!(false, "C06: add_option_as stores the option"),
    }
    // typed getters on a single value
    let c: u32 = kani::any();
    let (_, nc) = ref_uint(c as u64);
    p.add_option_as(CoapOption::Size2, OptionValueU32(c));
    match p.get_first_option_as::<OptionValueU32>(CoapOption::Size2) {
        Some(Ok(v)) => assert!(v.0 == c, "C06: get_first_option_as returns the stored number"),
        _ => assert!(false, "C06: get_first_option_as decodes"),
    }
    match p.get_options_as::<OptionValueU32>(CoapOption::Size2) {
        Some(l) => {
            assert!(l.len() == 1, "C06: get_options_as returns every value");
            match l.front() {
                Some(Ok(x)) => assert!(x.0 == c, "C06: get_options_as returns the stored number"),
                _ => assert!(false, "C06: get_options_as decodes"),
            }
        }
        None => assert!(false),
    }
    assert!(p.get_first_option_as::<OptionValueU32>(CoapOption::MaxAge).is_none(), "C06: an absent option reads as None");
    // narrower getter on a wider value
    match p.get_first_option_as::<OptionValueU16>(CoapOption::Size2) {
        Some(Ok(v)) => assert!(nc <= 2 && v.0 as u32 == c, "C06: a narrower wrapper accepts only what fits"),
        Some(Err(_)) => assert!(nc > 2, "C06: a narrower wrapper rejects longer values"),
        None => assert!(false),
    }
    let d: u16 = kani::any();
    let mut l = LinkedList::new();
    l.push_back(OptionValueU16(d));
    p.set_options_as(CoapOption::Size1, l);
    match p.get_option(CoapOption::Size1) {
        Some(list) => {
            assert!(list.len() == 1, "C06: set_options_as replaces the values");
            let (ed, nd) = ref_uint(d as u64);
            let v = list.front().unwrap();
            assert!(v.len() == nd, "C06: set_options_as stores the wrapper encoding");
            let i: usize = kani::any();
            if i < nd { assert!(v[i] == ed[i], "C06: set_options_as stores the wrapper encoding"); }
        }
        None => assert!(false),
    }
    kani::cover!(na == 4 && nb == 0, "a four-byte value then zero");
    kani::cover!(nc == 3, "three-byte value");
    core::mem::forget(p);
}

// ---------------------------------------------------------------------------------------------
// C02: direct re-encoding on concrete layouts (the general claim is the composition of C03's
// field equality with C01's exact image)
// ---------------------------------------------------------------------------------------------
macro_rules! c02_reencode {
    ($name:ident, $n:expr, $build:expr, $expect_len:expr) => {
        #[kani::proof]
        #[kani::unwind(7)]
        #[kani::stub(core::fmt::write, crate::verif_harness::stub_write)]
        fn $name() {
            const N: usize = $n;
            let mut buf: [u8; N] = kani::any();
            ($build)(&mut buf);
            match Packet::from_bytes(&buf[..]) {
                Ok(p) => {
                    let out = match p.to_bytes_unlimited() {
                        Ok(o) => o,
                        Err(_) => { assert!(false, "C02: an accepted datagram re-encodes"); return; }
                    };
                    let want: usize = ($expect_len)(&buf);
                    assert!(out.len() == want, "C02: re-encoding reproduces the datagram (only a lone trailing marker or the content of a 0.00 payload may be dropped)");
                    let i: usize = kani::any();
                    if i < want {
                        assert!(out[i] == buf[i], "C02: re-encoding reproduces the input byte for byte");
                    }
                    kani::cover!(true, "accepted and re-encoded");
                    core::mem::forget(p);
                }
                Err(_) => {}
            }
        }
    };
}

//@ props=C02 tier=quick timeout=1200 mem=5 cap=2 name=c02_reencode_one_option
//@ functions=Packet::from_bytes, Packet::to_bytes_unlimited, Packet::to_bytes_internal
//@ bounds=10-byte datagrams: first byte 0x51 (concrete), code != 0.00, any id, 1 token byte, one option (delta 13 + symbolic extended byte, length 1), 0xFF, 1 payload byte - every free bit symbolic
//@ what=parse then serialise without limit gives back the 10 input bytes
c02_reencode!(c02_reencode_one_option, 10, |b: &mut [u8; 10]| {
    b[0] = 0x51; // version 1, NON, TKL 1 (concrete)
    kani::assume(b[1] != 0);
    b[5] = 0xD1;
    b[8] = 0xFF;
}, |_b: &[u8; 10]| 10usize);

//@ props=C02 tier=quick timeout=900 mem=4 cap=2 name=c02_reencode_payload
//@ functions=Packet::from_bytes, Packet::to_bytes_unlimited
//@ bounds=8-byte datagrams without options: first byte 0x71 (version 1, RST, TKL 1 - concrete so that lengths are constants), any code incl. 0.00, any id, 1 token byte, 0xFF, 2 payload bytes
//@ what=parse then serialise gives back the input; for code 0.00 the marker and payload are dropped (6 bytes)
//@ outside=a direct parse-then-serialise query with even one option did not finish in 30 minutes; datagrams with options are covered by the composition C03 (framing, contents) + C01 (exact image)
c02_reencode!(c02_reencode_payload, 8, |b: &mut [u8; 8]| {
    b[0] = 0x71; // version 1, RST, TKL 1: concrete, so that the token length is a constant for CBMC
    b[5] = 0xFF;
}, |b: &[u8; 8]| if b[1] == 0 { 5usize } else { 8 });

//@ props=C02 tier=quick timeout=900 mem=4 cap=2 name=c02_reencode_lone_marker
//@ functions=Packet::from_bytes, Packet::to_bytes_unlimited
//@ bounds=6-byte datagrams without options: first byte 0x41 (concrete), any code, any id, 1 token byte, a lone trailing 0xFF
//@ what=a trailing payload marker with nothing after it is dropped; everything else comes back byte for byte
c02_reencode!(c02_reencode_lone_marker, 6, |b: &mut [u8; 6]| {
    b[0] = 0x41; // version 1, CON, TKL 1
    b[5] = 0xFF;
}, |_b: &[u8; 6]| 5usize);

//@ props=C02 tier=experimental timeout=1800 mem=19 cap=3 name=c02_reencode_two_options
//@ functions=Packet::from_bytes, Packet::to_bytes_unlimited, Packet::to_bytes_internal
//@ bounds=14-byte datagrams: first byte 0x61 (concrete), code != 0.00, any id, 1 token byte, two options (delta 13 + symbolic extended byte, length 1) and (delta 13 + symbolic extended byte, length 2), 0xFF, 1 payload byte - every free bit symbolic
//@ what=parse then serialise without limit gives back the 14 input bytes (the second delta re-encodes to the same extension byte)
c02_reencode!(c02_reencode_two_options, 14, |b: &mut [u8; 14]| {
    b[0] = 0x61;
    kani::assume(b[1] != 0);
    b[5] = 0xD1;
    b[8] = 0xD2;
    b[12] = 0xFF;
}, |_b: &[u8; 14]| 14usize);

macro_rules! c03_tkl_reserved {
    ($name:ident, $first:expr) => {
        #[kani::proof]
        #[kani::unwind(6)]
        #[kani::stub(core::fmt::write, crate::verif_harness::stub_write)]
        fn $name() {
            let mut buf: [u8; 19] = kani::any();
            buf[0] = $first; // concrete, so that the token length is a constant for CBMC
            let r = Packet::from_bytes(&buf[..]);
            assert!(r.is_err(), "C03: token length 9-15 is rejected");
            kani::cover!(buf[4] == 0xFF, "any content after the header");
        }
    };
}

//@ props=C03 tier=quick timeout=600 mem=6 cap=2 ilist=1 name=c03_tkl_9
//@ functions=Packet::from_bytes (token length check)
//@ bounds=19-byte datagrams (room for a 15-byte token) with first byte 0x49 (version 1, CON, TKL 9); every other byte symbolic
//@ what=token lengths 9..15 are rejected with an error even when enough bytes follow the header (the buffers of the c03_total_* harnesses are too short to hold such a token, so a lost range check would hide behind the truncation check there)
c03_tkl_reserved!(c03_tkl_9, 0x49);

//@ props=C03 tier=quick timeout=600 mem=6 cap=2 ilist=1 name=c03_tkl_15
//@ functions=Packet::from_bytes (token length check)
//@ bounds=as c03_tkl_9 with first byte 0x7F (version 1, RST, TKL 15)
//@ what=as c03_tkl_9
c03_tkl_reserved!(c03_tkl_15, 0x7F);
