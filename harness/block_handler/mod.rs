// Harnesses woven into src/block_handler/mod.rs (C08, C10, C11, C12).
use crate::verif_harness::VerifMapExt;
use crate::{CoapResponse, MessageType, RequestType};
use alloc::collections::LinkedList;

type H = BlockHandler<u8>;

fn is_pow2(x: usize) -> bool {
    x != 0 && (x & (x - 1)) == 0
}

//@ props=C10,C08 tier=quick timeout=1200 mem=4 model=0 loops=largest_power_of_2_not_in_excess:66
//@ functions=BlockHandler::negotiate_block_size_if_necessary, BlockValue::new, BlockValue::largest_power_of_2_not_in_excess, BlockValue::size
//@ bounds=overhead 4..70000, payload 0..100000, budget M 0..100000, client block: none or (any num: u16, more, szx 0..7) - all symbolic; assertions apply in the property's band overhead+28 <= M <= 1280
//@ what=in the band: chosen size is a power of two in 16..1024, <= the client's size, overhead+12+size <= M, = client size when client size + 32 <= M - overhead; block number agrees with the byte offset; unfragmented => overhead+payload fits; an error only for a block number beyond 65535
#[kani::proof]
#[kani::unwind(6)]
#[kani::stub(core::fmt::write, crate::verif_harness::stub_write)]
fn c10_negotiate() {
    let overhead: usize = kani::any();
    let payload: usize = kani::any();
    let m: usize = kani::any();
    kani::assume(overhead >= 4 && overhead <= 70_000 && payload <= 100_000 && m <= 100_000);
    let has_block: bool = kani::any();
    let num: u16 = kani::any();
    let more: bool = kani::any();
    let szx: u8 = kani::any();
    kani::assume(szx <= 7);
    let client = BlockValue { num, more, size_exponent: szx };
    let csize = 1usize << (szx as usize + 4);
    kani::assume(m >= overhead + 28 && m <= 1280);
    let r = H::negotiate_block_size_if_necessary(
        if has_block { Some(&client) } else { None },
        overhead + payload,
        payload,
        m,
    );
    let max_block = m - overhead - 12;
    match r {
        Ok(Some(b)) => {
            let s = b.size();
            assert!(is_pow2(s) && s >= 16 && s <= 1024, "C10: block size is a power of two between 16 and 1024");
            assert!(overhead + 12 + s <= m, "C10: a message carrying a block of the chosen size fits the budget");
            if has_block {
                assert!(s <= csize, "C10: never larger than the size the client asked for");
                if csize + 32 <= m - overhead {
                    assert!(s == csize, "C10: the client's size is used when it fits with 32 bytes to spare");
                    kani::cover!(szx == 2, "client size used");
                }
                if s == csize {
                    assert!(b.num == num, "C08: block number agrees with the byte offset");
                    assert!(b.more == (num as usize * csize + s < payload), "C08: more flag <=> bytes remain after this block");
                }
                if num == 0 {
                    assert!(b.num == 0, "C08: block 0 stays block 0 when the server reduces the size");
                }
                kani::cover!(s < csize, "server reduced the client's size");
            } else {
                assert!(b.num == 0 && b.more, "C08: unsolicited fragmentation starts at block 0 with more set");
                kani::cover!(s == 1024, "largest block size");
                kani::cover!(s == 16, "smallest block size");
            }
        }
        Ok(None) => {
            assert!(!has_block, "C08: a client that asked for block-wise transfer gets it");
            // `overhead` is what compute_message_size_hack measures: the encoding without payload and without
            // the payload marker (lemma c10_overhead_bridge), so the encoded message is one byte longer
            assert!(overhead + payload + if payload > 0 { 1 } else { 0 } <= m, "C10: a response left unfragmented fits the budget");
            kani::cover!(payload + 1 == max_block, "largest unfragmented payload");
        }
        Err(_) => {
            // only a hostile block number can fail inside the band
            assert!(has_block, "C10/C11: inside the budget band negotiation without a client block cannot fail");
            assert!(num as usize * csize > 65535 * 16,
                "C10: inside the budget band only a block number that cannot be represented is an error");
            kani::cover!(true, "hostile block number");
        }
    }
}

//@ props=C11,C10 tier=quick timeout=1200 mem=4 model=0 loops=largest_power_of_2_not_in_excess:66
//@ functions=BlockHandler::negotiate_block_size_if_necessary, BlockValue::new
//@ bounds=overhead 0..70000, payload 0..100000, budget M: every usize, client block: none or (any u16 num, more, szx 0..7)
//@ what=returns Ok or Err for every input - no division by zero, overflow or other panic (budgets from 0 upward, overhead below, at and above the budget)
#[kani::proof]
#[kani::unwind(6)]
#[kani::stub(core::fmt::write, crate::verif_harness::stub_write)]
fn c11_negotiate_total() {
    let overhead: usize = kani::any();
    let payload: usize = kani::any();
    let m: usize = kani::any();
    kani::assume(overhead <= 70_000 && payload <= 100_000);
    let has_block: bool = kani::any();
    let szx: u8 = kani::any();
    kani::assume(szx <= 7);
    let client = BlockValue { num: kani::any(), more: kani::any(), size_exponent: szx };
    let r = H::negotiate_block_size_if_necessary(
        if has_block { Some(&client) } else { None },
        overhead + payload,
        payload,
        m,
    );
    match r {
        Ok(_) => {
            kani::cover!(m == 0x7fff_ffff_ffff, "huge budget");
        }
        Err(e) => {
            assert!(e.code.is_some(), "C11: a situation the handler cannot serve is an error with a response code");
            if let Some(c) = e.code {
                assert!(c.is_error(), "C11: the error renders as 4.xx/5.xx");
            }
            kani::cover!(m < overhead + 12, "budget below the overhead");
            kani::cover!(m == overhead + 12 && has_block, "budget - overhead - 12 = 0 with a client block");
        }
    }
}

//@ props=C11 tier=quick timeout=1200 mem=4 cap=2
//@ functions=BlockHandler::compute_message_size_hack, Packet::to_bytes_internal
//@ bounds=message with one option whose value length is symbolic 0..1400 (overhead below, at and above 1280), payload 0..2 bytes
//@ what=the overhead measurement returns for every message a peer can send (from_bytes has no size limit) - no panic when the non-payload part alone exceeds the 1280-byte encoder limit
#[kani::proof]
#[kani::unwind(6)]
#[kani::stub(core::fmt::write, crate::verif_harness::stub_write)]
fn c11_overhead_any_size() {
    let mut p = Packet::new();
    let l: usize = kani::any();
    kani::assume(l <= 1400);
    let mut list = LinkedList::new();
    list.push_back(vec![0u8; l]);
    p.options.verif_push_sorted(15, list);
    let pl: usize = kani::any();
    kani::assume(pl <= 2);
    p.payload = vec![0u8; pl];
    let s = H::compute_message_size_hack(&mut p);
    // option 15 as the first option: delta 15 needs the one-byte extension, plus the length extension
    let hdr = 2 + if l < 13 { 0 } else if l < 269 { 1 } else { 2 };
    assert!(s == 4 + hdr + l + pl, "C10: measured size = encoded size less the payload marker");
    assert!(p.payload.len() == pl, "C11: measuring puts the payload back");
    kani::cover!(l == 1400, "overhead above 1280");
    kani::cover!(l == 1272, "overhead just below 1280");
    core::mem::forget(p);
}

macro_rules! c10_bridge {
    ($name:ident, $pl:expr, $high:expr) => {
        #[kani::proof]
        #[kani::unwind(6)]
        #[kani::stub(core::fmt::write, crate::verif_harness::stub_write)]
        fn $name() {
            let mut p = Packet::new();
            p.header.code = MessageClass::Response(ResponseType::Content);
            p.set_token(vec![1u8, 2]);
            // the one symbolic length of this query: a Uri-Path value of 0..20 bytes
            let ul: usize = kani::any();
            kani::assume(ul <= 20);
            let mut l1 = LinkedList::new();
            l1.push_back(vec![b'a'; ul]);
            p.options.verif_push_sorted(11, l1);
            let mut l2 = LinkedList::new();
            l2.push_back(vec![1u8]);
            p.options.verif_push_sorted(if $high { 60 } else { 12 }, l2);
            let pl: usize = $pl;
            p.payload = vec![7u8; pl];
            let measured = H::compute_message_size_hack(&mut p);
            let before = match p.to_bytes() { Ok(b) => b.len(), Err(_) => { assert!(false); return; } };
            // (the measurement leaves out the payload marker; the 12-byte allowance has to cover it)
            assert!(measured + if pl > 0 { 1 } else { 0 } == before, "C10: the overhead measurement equals the encoded length less the payload marker");
            let b1 = BlockValue { num: kani::any(), more: kani::any(), size_exponent: kani::any::<u8>() & 7 };
            let b2 = BlockValue { num: kani::any(), more: kani::any(), size_exponent: kani::any::<u8>() & 7 };
            p.add_option_as(CoapOption::Block2, b2);
            p.add_option_as(CoapOption::Block1, b1);
            let after = match p.to_bytes() { Ok(b) => b.len(), Err(_) => { assert!(false); return; } };
            assert!(after <= measured + BLOCK_OPTIONS_MAX_LENGTH, "C10: payload marker + Block1 + Block2 options stay within the 12-byte allowance the negotiation reserves");
            kani::cover!(after == before + 8, "two block options with full-size block numbers");
            kani::cover!(ul == 13, "extended Uri-Path length");
            core::mem::forget(p);
        }
    };
}

//@ props=C10 tier=quick timeout=1500 mem=8 cap=4 name=c10_overhead_bridge
//@ functions=BlockHandler::compute_message_size_hack, Packet::to_bytes, Packet::add_option_as::<BlockValue>
//@ bounds=message: 2-byte token, Uri-Path of symbolic length 0..20, one further option (number 60, above the block options) of 1 byte, payload of 2 bytes; block options with any num/more/szx
//@ what=ties the integer kernel to real messages: measured size = encoded length less the payload marker, and marker + Block1 + Block2 options stay within the 12 bytes the negotiation reserves
//@ outside=more than 2 pre-existing options (an added option costs at most 1 + 1 + 3 bytes and can only shrink the next delta)
c10_bridge!(c10_overhead_bridge, 2, true);

//@ props=C10 tier=thorough timeout=1500 mem=14 cap=4 name=c10_overhead_bridge_nopayload
//@ functions=BlockHandler::compute_message_size_hack, Packet::to_bytes, Packet::add_option_as::<BlockValue>
//@ bounds=as c10_overhead_bridge without payload and with the further option below the block options (number 12)
//@ what=as c10_overhead_bridge
c10_bridge!(c10_overhead_bridge_nopayload, 0, false);

// ---------------------------------------------------------------------------------------------
// C08 / C12: serving blocks from a cached response
// ---------------------------------------------------------------------------------------------
fn any_cached_response(body: &[u8]) -> (Packet, u16, u8, u8) {
    let mut c = Packet::new();
    c.header.set_type(if kani::any() { MessageType::Acknowledgement } else { MessageType::NonConfirmable });
    c.header.code = MessageClass::Response(ResponseType::Content);
    let cid: u16 = kani::any();
    c.header.message_id = cid;
    let ctok: u8 = kani::any();
    c.set_token(vec![ctok]);
    let etag: u8 = kani::any();
    let mut l = LinkedList::new();
    l.push_back(vec![etag]);
    c.options.verif_push_sorted(4, l); // ETag: one of "the application's other response options"
    c.payload = body.to_vec();
    (c, cid, ctok, etag)
}

fn any_block_request(num: u16, more: bool, szx: u8) -> (CoapRequest<u8>, u16, u8) {
    let mut q = Packet::new();
    q.header.set_type(if kani::any() { MessageType::Confirmable } else { MessageType::NonConfirmable });
    q.header.code = MessageClass::Request(RequestType::Get);
    let rid: u16 = kani::any();
    q.header.message_id = rid;
    let rtok: u8 = kani::any();
    q.set_token(vec![rtok]);
    let mut l = LinkedList::new();
    l.push_back(Vec::<u8>::from(BlockValue { num, more, size_exponent: szx }));
    q.options.verif_push_sorted(23, l);
    (CoapRequest::from_packet(q, 9u8), rid, rtok)
}

/// What the property demands of one served block.
fn check_served_block(resp: &Packet, body: &[u8], n: usize, num: usize, size: usize, szx: u8, more: bool, etag: u8, rid: u16, rtok: u8) {
    let start = num * size;
    let end = if start + size < n { start + size } else { n };
    assert!(resp.payload.len() == end - start, "C08: a non-final block carries exactly block-size bytes, the final block the remainder");
    let i: usize = kani::any();
    if i < end - start {
        assert!(resp.payload[i] == body[start + i], "C08: block bytes are the body bytes at offset num * size");
    }
    assert!(more == (start + size < n), "C08: more flag is set exactly on non-final blocks");
    match resp.get_option(CoapOption::Block2) {
        Some(list) => {
            assert!(list.len() == 1, "C08: exactly one Block2 option in a served block");
            match BlockValue::try_from(list.front().unwrap().clone()) {
                Ok(b) => {
                    assert!(b.num as usize == num && b.size_exponent == szx, "C08: Block2 echoes the block number and size");
                    assert!(b.more == more, "C08: Block2 more flag");
                }
                Err(_) => assert!(false, "C08: served Block2 option decodes"),
            }
        }
        None => assert!(false, "C08: a served block carries a Block2 option"),
    }
    match resp.get_option(CoapOption::ETag) {
        Some(list) => assert!(list.len() == 1 && list.front().unwrap().len() == 1 && list.front().unwrap()[0] == etag,
            "C08: every block repeats the application's other response options"),
        None => assert!(false, "C08: every block repeats the application's other response options"),
    }
    assert!(resp.header.message_id == rid, "C12: a served block carries the message id of the request being answered");
    assert!(resp.get_token().len() == 1 && resp.get_token()[0] == rtok, "C12: a served block carries the token of the request being answered");
    assert!(resp.header.code == MessageClass::Response(ResponseType::Content), "C08: a served block carries the application's response code");
}

macro_rules! c08_serve {
    ($name:ident, $maxbody:expr, $maxnum:expr, $szx:expr) => {
        #[kani::proof]
        #[kani::unwind(6)]
        #[kani::stub(core::fmt::write, crate::verif_harness::stub_write)]
        fn $name() {
            const MAXB: usize = $maxbody;
            let body: [u8; MAXB] = kani::any();
            let n: usize = kani::any();
            kani::assume(n <= MAXB);
            let (cached, _cid, _ctok, etag) = any_cached_response(&body[..n]);
            let num: u16 = kani::any();
            kani::assume(num <= $maxnum);
            let szx: u8 = $szx;
            let size = 1usize << (szx + 4);
            let (mut req, rid, rtok) = any_block_request(num, kani::any(), szx);
            let r = H::maybe_serve_cached_response(&mut req, BlockValue { num, more: kani::any(), size_exponent: szx }, &cached);
            match r {
                Err(e) => {
                    assert!(num as usize * size >= n, "C08: every block that starts inside the body is served");
                    assert!(!(n == 0 && num == 0), "C08: an empty body is served as one empty final block");
                    assert!(e.code.is_some(), "C11: an unservable block is an error with a code");
                    kani::cover!(n > 0, "block beyond the end of a non-empty body");
                }
                Ok(more) => {
                    // (what a block beyond the end of the body gets is left open by the property)
                    if (num as usize * size < n) || (n == 0 && num == 0) {
                        let resp = &req.response.as_ref().unwrap().message;
                        check_served_block(resp, &body, n, num as usize, size, szx, more, etag, rid, rtok);
                    }
                    kani::cover!(more && num == 1, "a middle block");
                    kani::cover!(!more && n == (num as usize + 1) * size, "final block exactly full");
                    kani::cover!(!more && n == num as usize * size + 1, "final block of one byte");
                    kani::cover!(n == 0, "empty body served as an empty final block");
                }
            }
            core::mem::forget(req);
            core::mem::forget(cached);
        }
    };
}

//@ props=C08,C12,C11 tier=quick timeout=2400 mem=8 cap=3 witness=c08_serve_step_w name=c08_serve_step
//@ functions=BlockHandler::maybe_serve_cached_response, BlockHandler::packet_clone_limited, Packet::set_options_as::<BlockValue>, Packet::set_option
//@ bounds=cached response: any id / 1-byte token / type, one ETag byte, body of symbolic length 0..40 with symbolic bytes; request: any id / token / type, Block2 num 0..3, block size 16
//@ what=served payload = body[num*16 .. min((num+1)*16, len)]; more <=> bytes remain; Block2 echoes num/size; cached options repeated; reply carries the request's id and token; Err iff the block starts at or beyond the end (an empty body is served as one empty final block)
//@ assumes=option map is the array model; the sum over num = 0,1,2.. of these steps is the reassembly statement (argument, not a query)
c08_serve!(c08_serve_step, 40, 3, 0);

//@ props=C08 tier=witness timeout=2400 mem=30 cap=3 name=c08_serve_step_w
//@ functions=BlockHandler::maybe_serve_cached_response
//@ bounds=as c08_serve_step with body 0..18 and num 0..2; only used to extract concrete counterexamples
//@ what=as c08_serve_step
c08_serve!(c08_serve_step_w, 18, 2, 0);

//@ props=C08,C12 tier=thorough timeout=3600 mem=8 cap=3 name=c08_serve_step_32
//@ functions=BlockHandler::maybe_serve_cached_response, BlockHandler::packet_clone_limited
//@ bounds=as c08_serve_step with body 0..80 bytes, block size 32, num 0..3
//@ what=as c08_serve_step
c08_serve!(c08_serve_step_32, 80, 3, 1);

/// One call of `maybe_handle_request_block2` from a BlockState given by the caller (the shape - cached
/// response or not, request with Block2 or not - is concrete per harness; ids, tokens, body bytes, block
/// number and the previous preference are symbolic).
fn release_scenario(has_cache: bool, with_block: bool) {
    const N: usize = 33;
    let body: [u8; N] = kani::any();
    let n: usize = N;
    let mut state = BlockState::default();
    let mut etag = 0u8;
    if has_cache {
        let (c, _, _, e) = any_cached_response(&body);
        etag = e;
        state.cached_response = Some(c);
    }
    if kani::any() {
        state.last_request_block2 = Some(BlockValue { num: kani::any(), more: kani::any(), size_exponent: kani::any::<u8>() & 7 });
    }
    let num: u16 = kani::any();
    kani::assume(num <= 3);
    let (mut req, rid, rtok) = if with_block {
        any_block_request(num, false, 0)
    } else {
        let mut q = Packet::new();
        q.header.code = MessageClass::Request(RequestType::Get);
        let rid: u16 = kani::any();
        q.header.message_id = rid;
        let rtok: u8 = kani::any();
        q.set_token(vec![rtok]);
        (CoapRequest::from_packet(q, 9u8), rid, rtok)
    };
    let r = H::maybe_handle_request_block2(&mut req, &mut state);
    match r {
        Ok(true) => {
            assert!(has_cache && with_block, "C08: only a Block2 request with a cached response is served from the cache");
            let resp = &req.response.as_ref().unwrap().message;
            let more = (num as usize + 1) * 16 < n;
            if (num as usize) * 16 < n {
                check_served_block(resp, &body, n, num as usize, 16, 0, more, etag, rid, rtok);
                assert!(state.cached_response.is_some() == more, "C08: the cache entry is released exactly when the final block has been served");
            }
            kani::cover!(!more, "opt: final block served, entry released");
            kani::cover!(more, "opt: more blocks remain, entry kept");
        }
        Ok(false) => {
            assert!(!(has_cache && with_block), "C08: follow-up blocks are served from the cache");
            assert!(state.cached_response.is_some() == has_cache, "C08: a request that is not served leaves the cache alone");
            kani::cover!(true, "opt: the request reaches the application");
        }
        Err(_) => {
            assert!(has_cache && with_block && num as usize * 16 >= n, "C08: only a block beyond the end is an error");
            kani::cover!(true, "opt: block beyond the end");
        }
    }
    // Lemma the decomposition rests on (the first-response analysis starts from it): after every request the
    // recorded preference is exactly that request's Block2 option - in particular none for a request without
    // one, so a plain GET that follows a finished block-wise fetch is answered from block 0.
    if with_block {
        match state.last_request_block2.as_ref() {
            Some(b) => assert!(b.num == num && b.size_exponent == 0, "C08: the recorded Block2 preference is the current request's"),
            None => assert!(false, "C08: the client's Block2 preference is recorded for the response"),
        }
    } else {
        assert!(state.last_request_block2.is_none(), "C08: a request without Block2 leaves no stale block preference behind");
    }
    kani::cover!(num == 2, "scenario completed with block number 2");
    kani::cover!(num == 0, "scenario completed with block number 0");
    core::mem::forget(req);
    core::mem::forget(state);
}

macro_rules! c08_release {
    ($name:ident, $cache:expr, $block:expr) => {
        #[kani::proof]
        #[kani::unwind(6)]
        #[kani::stub(core::fmt::write, crate::verif_harness::stub_write)]
        fn $name() {
            release_scenario($cache, $block);
        }
    };
}

//@ props=C08 tier=quick timeout=2400 mem=7 cap=3 name=c08_release
//@ functions=BlockHandler::maybe_handle_request_block2, BlockHandler::maybe_serve_cached_response
//@ bounds=BlockState with a cached response (body of 33 symbolic bytes, symbolic id/token/ETag) and any previous Block2 preference; request with Block2 num 0..3 (symbolic) at size 16, symbolic id/token/type
//@ what=a Block2 request is served from the cache (Ok(true)); the entry is released exactly when the final block was served; a block beyond the end is an error; the recorded preference is the current request's
c08_release!(c08_release, true, true);

//@ props=C08 tier=quick timeout=2400 mem=4 cap=3 name=c08_release_plain_get
//@ functions=BlockHandler::maybe_handle_request_block2
//@ bounds=BlockState with a cached response and any previous Block2 preference; request WITHOUT a Block2 option
//@ what=a request without Block2 is not intercepted, leaves the cache alone and leaves no stale block preference behind (so the next response starts at block 0)
c08_release!(c08_release_plain_get, true, false);

//@ props=C08 tier=quick timeout=2400 mem=4 cap=3 name=c08_release_no_cache
//@ functions=BlockHandler::maybe_handle_request_block2
//@ bounds=BlockState without a cached response, any previous preference; request with Block2 num 0..3
//@ what=without a cached response the request reaches the application (Ok(false)) and its Block2 preference is recorded for the response
c08_release!(c08_release_no_cache, false, true);

// ---------------------------------------------------------------------------------------------
// C12: cache key
// ---------------------------------------------------------------------------------------------
fn key_request(code: u8, ep: u8, shape: u8) -> CoapRequest<u8> {
    let mut p = Packet::new();
    p.header.code = MessageClass::from(code);
    match shape {
        0 => {}
        1 => { p.add_option(CoapOption::UriPath, b"a".to_vec()); }
        2 => { p.add_option(CoapOption::UriPath, b"a".to_vec()); p.add_option(CoapOption::UriPath, b"b".to_vec()); }
        3 => { p.add_option(CoapOption::UriPath, b"a/b".to_vec()); }
        _ => { p.add_option(CoapOption::UriPath, b"ab".to_vec()); }
    }
    CoapRequest::from_packet(p, ep)
}

//@ props=C12 tier=quick timeout=900 mem=4 cap=2
//@ functions=RequestCacheKey::from(&CoapRequest), CoapRequest::get_method, CoapRequest::get_path_as_vec (no Uri-Path), derived Eq/Ord of RequestCacheKey
//@ bounds=two requests without Uri-Path; method code byte 1..7 and endpoint (u8) symbolic for both
//@ what=cache keys are equal iff method and endpoint are equal; the derived order is consistent with equality
#[kani::proof]
#[kani::unwind(6)]
#[kani::stub(core::fmt::write, crate::verif_harness::stub_write)]
fn c12_key_method_endpoint() {
    let (c1, c2): (u8, u8) = (kani::any(), kani::any());
    kani::assume(c1 >= 1 && c1 <= 7 && c2 >= 1 && c2 <= 7);
    let (e1, e2): (u8, u8) = (kani::any(), kani::any());
    let r1 = key_request(c1, e1, 0);
    let r2 = key_request(c2, e2, 0);
    let k1 = RequestCacheKey::from(&r1);
    let k2 = RequestCacheKey::from(&r2);
    assert!((k1 == k2) == (c1 == c2 && e1 == e2), "C12: transfers that differ in method or endpoint have different cache keys");
    assert!((k1.cmp(&k2) == core::cmp::Ordering::Equal) == (c1 == c2 && e1 == e2), "C12: key order agrees with key equality");
    kani::cover!(c1 == c2 && e1 != e2, "same method, other endpoint");
    kani::cover!(c1 != c2 && e1 == e2, "same endpoint, other method");
    core::mem::forget((r1, r2, k1, k2));
}

macro_rules! c12_key_paths {
    ($name:ident, $shape1:expr, $shape2:expr, $same_path:expr) => {
        #[kani::proof]
        #[kani::unwind(5)]
        #[kani::stub(core::fmt::write, crate::verif_harness::stub_write)]
        #[kani::stub(core::str::from_utf8, crate::verif_harness::model_from_utf8_valid_inputs)]
        fn $name() {
            let (c1, c2): (u8, u8) = (kani::any(), kani::any());
            kani::assume(c1 >= 1 && c1 <= 7 && c2 >= 1 && c2 <= 7);
            let (e1, e2): (u8, u8) = (kani::any(), kani::any());
            let r1 = key_request(c1, e1, $shape1);
            let r2 = key_request(c2, e2, $shape2);
            let k1 = RequestCacheKey::from(&r1);
            let k2 = RequestCacheKey::from(&r2);
            if $same_path {
                assert!((k1 == k2) == (c1 == c2 && e1 == e2), "C12: equal paths share a key exactly when method and endpoint agree");
            } else {
                assert!(k1 != k2, "C12: requests for different paths (segmentation, prefix) never share a cache key");
            }
            kani::cover!(c1 == c2 && e1 == e2, "same method and endpoint");
            kani::cover!(c1 != c2, "different methods");
            core::mem::forget((r1, r2, k1, k2));
        }
    };
}

//@ props=C12 tier=quick timeout=1800 mem=28 cap=2 name=c12_key_segmentation
//@ functions=RequestCacheKey::from(&CoapRequest), CoapRequest::get_path_as_vec, OptionValueString::try_from
//@ bounds=Uri-Path segments ["a","b"] vs the single segment "a/b" (concrete); method code 1..7 and endpoint (u8) symbolic for both requests
//@ what=paths that differ only in segmentation never share a cache key
//@ assumes=core::str::from_utf8 is replaced by the byte-loop RFC 3629 model; path bytes are enumerated, not symbolic
c12_key_paths!(c12_key_segmentation, 2, 3, false);

//@ props=C12 tier=quick timeout=1800 mem=28 cap=2 name=c12_key_same_path
//@ functions=RequestCacheKey::from(&CoapRequest), CoapRequest::get_path_as_vec
//@ bounds=both requests for ["a","b"]; method and endpoint symbolic
//@ what=equal paths collapse exactly when method and endpoint agree
//@ assumes=core::str::from_utf8 is replaced by the byte-loop RFC 3629 model
c12_key_paths!(c12_key_same_path, 2, 2, true);

//@ props=C12 tier=thorough timeout=1800 mem=28 cap=2 name=c12_key_prefix
//@ functions=RequestCacheKey::from(&CoapRequest), CoapRequest::get_path_as_vec
//@ bounds=["a","b"] vs its prefix ["a"]; method and endpoint symbolic
//@ what=a path and its prefix never share a cache key
//@ assumes=core::str::from_utf8 is replaced by the byte-loop RFC 3629 model
c12_key_paths!(c12_key_prefix, 2, 1, false);

// ---------------------------------------------------------------------------------------------
// C08 / C10 / C11 / C12: public entry points with the cache-lookup model (lru=1)
// ---------------------------------------------------------------------------------------------
#[cfg(feature = "verif_cache_model")]
fn bind_state(state: &mut BlockState) {
    // every `states.entry(key)` of the handler resolves to this harness-owned state
    unsafe {
        lru_time_cache::VERIF_STATE_PTR = state as *mut BlockState as *mut u8;
    }
}

#[cfg(feature = "verif_cache_model")]
fn new_handler(m: usize) -> H {
    BlockHandler::new(BlockHandlerConfig { max_total_message_size: m, cache_expiry_duration: Duration::from_secs(120) })
}

#[cfg(feature = "verif_cache_model")]
fn plain_request() -> (CoapRequest<u8>, u16, u8) {
    let mut q = Packet::new();
    q.header.set_type(if kani::any() { MessageType::Confirmable } else { MessageType::NonConfirmable });
    q.header.code = MessageClass::Request(RequestType::Get);
    let rid: u16 = kani::any();
    q.header.message_id = rid;
    let rtok: u8 = kani::any();
    q.set_token(vec![rtok]);
    (CoapRequest::from_packet(q, 9u8), rid, rtok)
}

/// First response of a transfer through the public `intercept_response`, cache lookup modelled.
/// `m` = budget, `pref` = the client's Block2 preference at block 0 (size exponent), `N` = body length.
#[cfg(feature = "verif_cache_model")]
fn first_block_scenario<const N: usize>(m: usize, pref: Option<u8>) {
    let mut h = new_handler(m);
    let mut state = BlockState::default();
    let has_pref = pref.is_some();
    let szx = pref.unwrap_or(0);
    if has_pref {
        state.last_request_block2 = Some(BlockValue { num: 0, more: false, size_exponent: szx });
    }
    bind_state(&mut state);
    let (mut req, rid, rtok) = plain_request();
    let body: [u8; N] = kani::any();
    let n: usize = N;
    req.response.as_mut().unwrap().message.payload = body.to_vec();
    let r = h.intercept_response(&mut req);
    let resp = &req.response.as_ref().unwrap().message;
    // reply overhead: 4 header bytes + 1 token byte, no options
    let csize = 1usize << (szx + 4);
    assert!(resp.header.message_id == rid && resp.get_token().len() == 1 && resp.get_token()[0] == rtok,
        "C12: the reply carries the request's message id and token");
    match r {
        Ok(fragmented) => {
            match resp.get_first_option_as::<BlockValue>(CoapOption::Block2) {
                None => {
                    assert!(!fragmented, "C08: a reply without a Block2 option is not reported as block-wise");
                    assert!(resp.payload.len() == n, "C08: an unfragmented reply keeps its payload");
                    let i: usize = kani::any();
                    if i < n { assert!(resp.payload[i] == body[i], "C08: an unfragmented reply keeps its payload"); }
                    assert!(state.cached_response.is_none(), "C08: nothing is cached for an unfragmented reply");
                    if has_pref { assert!(n <= csize, "C08: a client that asked for blocks never gets more than a block"); }
                    kani::cover!(true, "unfragmented reply");
                }
                Some(Err(_)) => assert!(false, "C08: the Block2 option of a fragmented reply decodes"),
                Some(Ok(b)) => {
                    let s = b.size();
                    assert!(s >= 16 && s <= 1024 && (s & (s - 1)) == 0, "C10: block size is a power of two between 16 and 1024");
                    assert!(5 + 12 + s <= m, "C10: a block of the chosen size fits the budget");
                    if has_pref {
                        assert!(s <= csize, "C10: never larger than the client's size");
                        if csize + 32 <= m - 5 { assert!(s == csize, "C10: the client's size is used when it fits with 32 bytes to spare"); }
                    }
                    assert!(b.num == 0, "C08: the first fragment is block 0");
                    let end = if n < s { n } else { s };
                    assert!(resp.payload.len() == end, "C08: block 0 carries the first block-size bytes");
                    let i: usize = kani::any();
                    if i < end { assert!(resp.payload[i] == body[i], "C08: block 0 bytes are the body's first bytes"); }
                    assert!(b.more == (n > s), "C08: more flag on the first fragment");
                    assert!(fragmented == (n > s), "C08: handled as block-wise iff more blocks remain");
                    assert!(state.cached_response.is_some() == (n > s), "C08: the full reply is cached iff more blocks remain");
                    if let Some(c) = state.cached_response.as_ref() {
                        assert!(c.payload.len() == n, "C08: the cached reply holds the whole body");
                        let j: usize = kani::any();
                        if j < n { assert!(c.payload[j] == body[j], "C08: the cached reply holds the whole body"); }
                    }
                    kani::cover!(true, "fragmented reply");
                }
            }
            // Encoded size: header 4 + token 1 + (marker + Block2 option <= 12, lemma c10_overhead_bridge) + payload.
            let has_b2 = resp.get_option(CoapOption::Block2).is_some();
            let bound = 5 + resp.payload.len() + if has_b2 { 12 } else if resp.payload.is_empty() { 0 } else { 1 };
            assert!(bound <= m, "C10: the reply encodes within the configured maximum message size");
        }
        Err(_) => assert!(false, "C08/C11: a reply within the budget band is served"),
    }
    core::mem::forget(h);
    core::mem::forget(req);
    core::mem::forget(state);
}

macro_rules! c08_first_block_concrete {
    ($name:ident, $m:expr, $pref:expr, $n:expr) => {
        #[cfg(feature = "verif_cache_model")]
        #[kani::proof]
        #[kani::unwind(6)]
        #[kani::stub(core::fmt::write, crate::verif_harness::stub_write)]
        fn $name() {
            first_block_scenario::<$n>($m, $pref);
        }
    };
}

//@ props=C08,C10,C12 tier=experimental timeout=1800 mem=16 cap=3 lru=1 loops=largest_power_of_2_not_in_excess:66 name=c08_wiring_unsolicited
//@ functions=BlockHandler::intercept_response, BlockHandler::negotiate_block_size_if_necessary, BlockHandler::compute_message_size_hack, BlockHandler::maybe_serve_cached_response, BlockHandler::packet_clone_limited
//@ bounds=ONE scenario with symbolic contents: budget 40, no client preference, body of 17 symbolic bytes, request id/token/type symbolic
//@ what=wiring of intercept_response (which arguments reach the kernel and the serve step, cache iff more): block 0 = first 16 bytes, more set, whole body cached, reply carries the request's id/token and fits the budget. The for-all statements over budgets, preferences and bodies are decided on the pieces (c10_negotiate, c10_overhead_bridge, c08_serve_step); the symbolic-budget form of this harness does not finish (symex 1300 s, then out of memory / time-out at 40 min)
//@ assumes=cache lookup modelled: entry() returns the harness-owned BlockState (no key mapping, expiry or eviction)
c08_first_block_concrete!(c08_wiring_unsolicited, 40, None, 17);

//@ props=C08,C10,C12 tier=experimental timeout=1800 mem=16 cap=3 lru=1 loops=largest_power_of_2_not_in_excess:66 name=c08_wiring_empty_early
//@ functions=BlockHandler::intercept_response, BlockHandler::maybe_serve_cached_response
//@ bounds=ONE scenario: budget 64, client asks for 32-byte blocks at block 0, empty body
//@ what=an empty body with early negotiation is answered with an empty final block (more clear, nothing cached), not an error
//@ assumes=cache lookup modelled
c08_first_block_concrete!(c08_wiring_empty_early, 64, Some(1), 0);

//@ props=C08,C10,C12 tier=experimental timeout=2400 mem=19 cap=3 lru=1 loops=largest_power_of_2_not_in_excess:66 name=c08_wiring_early_reduced
//@ functions=BlockHandler::intercept_response
//@ bounds=ONE scenario: budget 64 (room for 32-byte blocks), client asks for 64-byte blocks at block 0, body of 40 symbolic bytes
//@ what=the server reduces the client's size to 32: block 0 = first 32 bytes, more set, cached
//@ assumes=cache lookup modelled
c08_first_block_concrete!(c08_wiring_early_reduced, 64, Some(2), 40);

//@ props=C10,C09 tier=quick timeout=1800 mem=7 cap=3 loops=largest_power_of_2_not_in_excess:66
//@ functions=BlockHandler::maybe_handle_request_block1 (request without Block1), BlockHandler::negotiate_block_size_if_necessary, BlockHandler::compute_message_size_hack
//@ bounds=request without Block1 option: 1-byte token, payload length symbolic 0..100, type symbolic (CON/NON/ACK/RST); budget M symbolic in [overhead + 28, 96] with overhead = 5
//@ what=a request that fits is passed on untouched; a request too large for the budget is answered 4.13 with a Block1 hint (block 0) whose size is a power of two >= 16 that fits the budget, instead of being processed; without a prepared response the situation is an error, not a panic
//@ outside=requests that carry a Block1 option (Vec::splice is not executable by CBMC, see DESIGN.md section 4)
#[kani::proof]
#[kani::unwind(6)]
#[kani::stub(core::fmt::write, crate::verif_harness::stub_write)]
fn c10_413_hint() {
    let mut q = Packet::new();
    let tn: u8 = kani::any();
    q.header.set_type(match tn & 3 { 0 => MessageType::Confirmable, 1 => MessageType::NonConfirmable, 2 => MessageType::Acknowledgement, _ => MessageType::Reset });
    q.header.code = MessageClass::Request(RequestType::Put);
    q.set_token(vec![kani::any()]);
    let pl: usize = kani::any();
    kani::assume(pl <= 100);
    q.payload = vec![0u8; pl];
    let mut req = CoapRequest::from_packet(q, 9u8);
    let m: usize = kani::any();
    // encoded request: 4 header bytes + 1 token byte + (marker + payload when there is one)
    let encoded = 5 + if pl > 0 { 1 + pl } else { 0 };
    kani::assume(m >= 5 + 28 && m <= 96);
    let mut state = BlockState::default();
    let r = H::maybe_handle_request_block1(&mut req, m, &mut state);
    match r {
        Ok(false) => {
            assert!(encoded <= m, "C09: a request too large for the budget is not passed to the application");
            if let Some(resp) = req.response.as_ref() {
                assert!(resp.message.get_option(CoapOption::Block1).is_none(), "C09: a request that is passed on is left untouched");
                assert!(resp.message.header.code == MessageClass::Response(ResponseType::Content));
            }
            assert!(req.message.payload.len() == pl, "C09: a request that is passed on keeps its payload");
            kani::cover!(pl > 0, "a request with payload is passed on");
        }
        Ok(true) => {
            let resp = match req.response.as_ref() { Some(r) => r, None => { assert!(false); return; } };
            assert!(resp.message.header.code == MessageClass::Response(ResponseType::RequestEntityTooLarge), "C09: oversized request without Block1 => 4.13");
            match resp.message.get_first_option_as::<BlockValue>(CoapOption::Block1) {
                Some(Ok(b)) => {
                    let s = b.size();
                    assert!(is_pow2(s) && s >= 16 && s <= 1024, "C10: hinted block size is a power of two in 16..1024");
                    // the client's next upload block: header 4 + token 1 + marker and Block1 option (<= 12) + s bytes
                    assert!(5 + 12 + s <= m, "C10: the client's next upload block of the hinted size fits the budget");
                    assert!(b.num == 0, "C09: the hint is for block 0");
                    kani::cover!(s == 32, "hint of 32 bytes");
                    kani::cover!(s == 16, "hint of 16 bytes");
                }
                _ => assert!(false, "C09: 4.13 carries a Block1 size hint"),
            }
            kani::cover!(encoded > m, "a request that does not fit");
        }
        Err(e) => {
            assert!(tn & 3 >= 2, "C11: only a request without a prepared response is an error here");
            kani::cover!(true, "oversized ACK/RST");
        }
    }
    assert!(state.cached_request_payload.is_none(), "C09: nothing is buffered for a request without Block1");
    core::mem::forget(req);
    core::mem::forget(state);
}

//@ props=C11 tier=experimental timeout=2400 mem=19 cap=3 lru=1 loops=largest_power_of_2_not_in_excess:66
//@ functions=BlockHandler::intercept_request, BlockHandler::maybe_handle_request_block1 (no Block1), BlockHandler::maybe_handle_request_block2, BlockHandler::maybe_serve_cached_response, CoapRequest::apply_from_error
//@ bounds=one request of any type (CON/NON/ACK/RST), 1-byte token, Block2 option absent or raw bytes of length 0..3 (malformed values included), no Block1, payload 0..2; budget M symbolic 0..5000; arbitrary BlockState: cached response (body 20 bytes) or none, any previous Block2 preference
//@ what=intercept_request returns Ok or Err - never panics; an Err renders as a 4.xx/5.xx reply through apply_from_error exactly when a response was prepared and the error has a code
//@ assumes=cache lookup modelled (harness-owned BlockState); sequences longer than one call are covered only in that each call starts from an arbitrary state
//@ outside=requests carrying Block1 (Vec::splice not executable), the 16 KiB growth bound
#[cfg(feature = "verif_cache_model")]
#[kani::proof]
#[kani::unwind(6)]
#[kani::stub(core::fmt::write, crate::verif_harness::stub_write)]
fn c11_intercept_request_total() {
    let m: usize = kani::any();
    kani::assume(m <= 5000);
    let mut h = new_handler(m);
    let mut state = BlockState::default();
    let body = [7u8; 20];
    if kani::any() {
        let (c, _, _, _) = any_cached_response(&body);
        state.cached_response = Some(c);
    }
    if kani::any() {
        state.last_request_block2 = Some(BlockValue { num: kani::any(), more: kani::any(), size_exponent: kani::any::<u8>() & 7 });
    }
    bind_state(&mut state);
    let mut q = Packet::new();
    let tn: u8 = kani::any();
    q.header.set_type(match tn & 3 { 0 => MessageType::Confirmable, 1 => MessageType::NonConfirmable, 2 => MessageType::Acknowledgement, _ => MessageType::Reset });
    q.header.code = MessageClass::Request(RequestType::Get);
    q.set_token(vec![kani::any()]);
    let has_b2: bool = kani::any();
    let raw: [u8; 3] = kani::any();
    let rl: usize = kani::any();
    kani::assume(rl <= 3);
    if has_b2 {
        let mut l = LinkedList::new();
        l.push_back(raw[..rl].to_vec());
        q.options.verif_push_sorted(23, l);
    }
    let pl: usize = kani::any();
    kani::assume(pl <= 2);
    q.payload = vec![1u8; pl];
    let mut req = CoapRequest::from_packet(q, 9u8);
    match h.intercept_request(&mut req) {
        Ok(handled) => {
            kani::cover!(handled, "served from the cache");
            kani::cover!(!handled, "passed to the application");
        }
        Err(e) => {
            let has_code = e.code.is_some();
            if let Some(c) = e.code {
                assert!(c.is_error(), "C11: a handling error carries a 4.xx/5.xx code");
            }
            let applied = req.apply_from_error(e);
            assert!(applied == (has_code && tn & 3 <= 1), "C11: the error renders as a reply when a response was prepared");
            if applied {
                let code = u8::from(req.response.as_ref().unwrap().message.header.code);
                assert!(code >= 0x80, "C11: the rendered reply is 4.xx/5.xx");
            }
            kani::cover!(m < 17, "budget below the overhead");
            kani::cover!(tn & 3 >= 2, "no prepared response");
            kani::cover!(has_b2 && m > 100, "block beyond the end of the cached body");
        }
    }
    core::mem::forget(h);
    core::mem::forget(req);
    core::mem::forget(state);
}
