// Harnesses woven into src/block_handler/block_value.rs (C13).

//@ props=C13 tier=quick timeout=600 model=0 mem=4
//@ functions=Vec::<u8>::from(BlockValue), BlockValue::try_from(Vec<u8>), BlockValue::size, option_from_uint, option_to_uint
//@ bounds=num: every u16; more: both; size exponent 0..7 (the full domain of the type's documented use)
//@ what=encoding = shortest big-endian uint of NUM<<4|M<<3|SZX computed in 32 bits; decode returns the triple; size() = 2^(SZX+4)
#[kani::proof]
#[kani::unwind(10)]
#[kani::stub(core::fmt::write, crate::verif_harness::stub_write)]
fn c13_encode_decode() {
    let num: u16 = kani::any();
    let more: bool = kani::any();
    let szx: u8 = kani::any();
    kani::assume(szx <= 7);
    let bv = BlockValue { num, more, size_exponent: szx };
    assert!(bv.size() == 1usize << (szx as usize + 4), "C13: size() = 2^(SZX+4)");
    let scalar: u32 = (num as u32) << 4 | (more as u32) << 3 | szx as u32;
    let (exp, n) = crate::verif_harness::ref_uint(scalar as u64);
    let enc: Vec<u8> = bv.clone().into();
    assert!(enc.len() == n, "C13: encoded length is the minimal length of NUM<<4|M<<3|SZX");
    let i: usize = kani::any();
    if i < n {
        assert!(enc[i] == exp[i], "C13: encoded bytes are NUM<<4|M<<3|SZX big-endian");
    }
    match BlockValue::try_from(enc) {
        Ok(d) => {
            assert!(d.num == num, "C13: decode(encode) keeps the block number");
            assert!(d.more == more, "C13: decode(encode) keeps the more flag");
            assert!(d.size_exponent == szx, "C13: decode(encode) keeps the size exponent");
        }
        Err(_) => assert!(false, "C13: an encoded block value decodes"),
    }
    kani::cover!(num >= 4096, "block number needing the third byte");
    kani::cover!(num == 0 && !more && szx == 0, "zero => empty option value");
    kani::cover!(n == 2, "two-byte value");
}

//@ props=C13 tier=quick timeout=600 model=0 mem=4
//@ functions=BlockValue::try_from(Vec<u8>), option_to_uint
//@ bounds=every byte string of length 0..4 (symbolic length and contents)
//@ what=decoding a 0-3 byte value yields NUM = v>>4, M = bit 3, SZX = v&7 of its big-endian value, leading zeros included; 4 bytes and more are rejected
#[kani::proof]
#[kani::unwind(7)]
#[kani::stub(core::fmt::write, crate::verif_harness::stub_write)]
fn c13_decode_bytes() {
    let b: [u8; 4] = kani::any();
    let l: usize = kani::any();
    kani::assume(l <= 4);
    let mut v: u32 = 0;
    let mut k = 0;
    while k < 4 {
        if k < l {
            v = v << 8 | b[k] as u32;
        }
        k += 1;
    }
    let r = BlockValue::try_from(b[..l].to_vec());
    let is_err = r.is_err();
    if l <= 3 && (v >> 4) <= 0xFFFF {
        match r {
            Ok(d) => {
                assert!(d.num as u32 == v >> 4, "C13: NUM = value >> 4");
                assert!(d.more == ((v >> 3) & 1 == 1), "C13: M = bit 3");
                assert!(d.size_exponent as u32 == v & 7, "C13: SZX = low three bits");
            }
            Err(_) => assert!(false, "C13: a block option value of up to three bytes decodes"),
        }
    }
    if l >= 4 {
        assert!(is_err, "C13: four-byte values are not block option values");
    }
    kani::cover!(l == 3 && b[0] != 0, "three significant bytes");
    kani::cover!(l == 2 && b[0] == 0, "leading zero");
    kani::cover!(l == 0, "empty value");
}

//@ props=C13 tier=quick timeout=900 model=0 mem=4
//@ functions=BlockValue::new, BlockValue::largest_power_of_2_not_in_excess
//@ bounds=num, size: every usize; more: both
//@ what=Err iff size = 0, size >= 4096 or num > 65535; otherwise exponent = max(4, floor(log2 size)) - 4 and the fields are kept
#[kani::proof]
#[kani::unwind(70)]
#[kani::stub(core::fmt::write, crate::verif_harness::stub_write)]
fn c13_new() {
    let num: usize = kani::any();
    let more: bool = kani::any();
    let size: usize = kani::any();
    let r = BlockValue::new(num, more, size);
    let must_fail = size == 0 || size >= 4096 || num > 65535;
    match r {
        Err(_) => assert!(must_fail, "C13: new() only fails for size 0, size >= 4096 or num > 65535"),
        Ok(bv) => {
            assert!(!must_fail, "C13: new() refuses unencodable sizes and block numbers");
            assert!(bv.num as usize == num && bv.more == more);
            let s = bv.size();
            assert!(s >= 16 && s <= 2048, "C13: block size between 16 and 2048");
            if size >= 16 {
                assert!(s <= size && 2 * s > size, "C13: largest power of two not exceeding the size");
            } else {
                assert!(s == 16, "C13: sizes below 16 are rounded up to 16");
            }
            kani::cover!(size == 17, "size 17 -> 16");
            kani::cover!(size == 4095, "size 4095 -> 2048");
            kani::cover!(size == 1, "size 1 -> 16");
        }
    }
    kani::cover!(size == usize::MAX, "size usize::MAX");
    kani::cover!(num == 65536 && size == 16, "first unrepresentable block number");
}
