// Support code shared by all harness modules. Woven into src/lib.rs as
// `#[cfg(kani)] pub(crate) mod verif_harness { use super::*; ... }`.

/// Stub for `core::fmt::write`: formatting is not the subject of the harnesses that use it.
pub(crate) fn stub_write(_o: &mut dyn core::fmt::Write, _a: core::fmt::Arguments<'_>) -> core::fmt::Result {
    Ok(())
}

/// Byte-loop RFC 3629 validator used as a model of `core::str::from_utf8` in
/// harnesses that must carry a Uri-Path (std's word-at-a-time scan is not
/// affordable for CBMC). Accepts exactly well-formed UTF-8.
pub(crate) fn model_from_utf8(v: &[u8]) -> Result<&str, core::str::Utf8Error> {
    model_from_utf8_impl(v, true)
}

/// The same validator for harnesses whose strings are valid by construction (enumerated paths): the
/// rejecting branch is asserted unreachable instead of building a `Utf8Error` (which needs a call into the
/// real validator and made two queries run out of memory).
pub(crate) fn model_from_utf8_valid_inputs(v: &[u8]) -> Result<&str, core::str::Utf8Error> {
    model_from_utf8_impl(v, false)
}

fn model_from_utf8_impl(v: &[u8], may_reject: bool) -> Result<&str, core::str::Utf8Error> {
    let mut i = 0;
    let n = v.len();
    let mut ok = true;
    while i < n {
        let b = v[i];
        if b < 0x80 {
            i += 1;
        } else {
            let (need, lo, hi) = if b >= 0xC2 && b <= 0xDF {
                (1, 0x80u8, 0xBFu8)
            } else if b == 0xE0 {
                (2, 0xA0, 0xBF)
            } else if (b >= 0xE1 && b <= 0xEC) || b == 0xEE || b == 0xEF {
                (2, 0x80, 0xBF)
            } else if b == 0xED {
                (2, 0x80, 0x9F)
            } else if b == 0xF0 {
                (3, 0x90, 0xBF)
            } else if b >= 0xF1 && b <= 0xF3 {
                (3, 0x80, 0xBF)
            } else if b == 0xF4 {
                (3, 0x80, 0x8F)
            } else {
                ok = false;
                break;
            };
            if i + need >= n {
                ok = false;
                break;
            }
            if v[i + 1] < lo || v[i + 1] > hi {
                ok = false;
                break;
            }
            let mut k = 2;
            while k <= need {
                if v[i + k] < 0x80 || v[i + k] > 0xBF {
                    ok = false;
                }
                k += 1;
            }
            if !ok {
                break;
            }
            i += need + 1;
        }
    }
    if ok {
        Ok(unsafe { core::str::from_utf8_unchecked(v) })
    } else if !may_reject {
        panic!("verif model: this harness only passes valid UTF-8");
    } else {
        // obtain a genuine Utf8Error value through a tiny concrete call of the real validator
        // (from_utf8_mut, because from_utf8 itself is what this model replaces)
        let mut bad: [u8; 1] = [0xFF];
        match core::str::from_utf8_mut(&mut bad) {
            Err(e) => Err(e),
            Ok(_) => unreachable!(),
        }
    }
}

/// RFC 7252 section 3.1 option header (delta, length) -> bytes, written from the RFC text.
pub(crate) fn ref_opt_hdr(delta: u32, len: u32, out: &mut [u8; 5]) -> usize {
    let (dn, dx, dxl) = if delta < 13 {
        (delta as u8, 0u32, 0usize)
    } else if delta < 269 {
        (13, delta - 13, 1)
    } else {
        (14, delta - 269, 2)
    };
    let (ln, lx, lxl) = if len < 13 {
        (len as u8, 0u32, 0usize)
    } else if len < 269 {
        (13, len - 13, 1)
    } else {
        (14, len - 269, 2)
    };
    out[0] = dn << 4 | ln;
    let mut n = 1;
    if dxl == 1 {
        out[n] = dx as u8;
        n += 1;
    } else if dxl == 2 {
        out[n] = (dx >> 8) as u8;
        out[n + 1] = dx as u8;
        n += 2;
    }
    if lxl == 1 {
        out[n] = lx as u8;
        n += 1;
    } else if lxl == 2 {
        out[n] = (lx >> 8) as u8;
        out[n + 1] = lx as u8;
        n += 2;
    }
    n
}

/// Shortest big-endian representation of `v` (RFC 7252 section 3.2 uint): returns (bytes, len).
/// Written without loops so that harnesses using it need no extra unwinding.
pub(crate) fn ref_uint(v: u64) -> ([u8; 8], usize) {
    let n: usize = if v == 0 {
        0
    } else if v < 1 << 8 {
        1
    } else if v < 1 << 16 {
        2
    } else if v < 1 << 24 {
        3
    } else if v < 1 << 32 {
        4
    } else if v < 1 << 40 {
        5
    } else if v < 1 << 48 {
        6
    } else if v < 1 << 56 {
        7
    } else {
        8
    };
    // left-align the n significant bytes
    let be = if n == 0 { [0u8; 8] } else { (v << (8 * (8 - n) as u32)).to_be_bytes() };
    (be, n)
}

/// Harness-only constructor: place an entry in the next slot. With the container model this is
/// a plain append (the caller assumes the keys ascend); with std's map it is `insert`.
pub(crate) trait VerifMapExt<K, V> {
    fn verif_push_sorted(&mut self, k: K, v: V);
}
#[cfg(not(feature = "verif_model"))]
impl<K: Ord, V> VerifMapExt<K, V> for alloc::collections::BTreeMap<K, V> {
    fn verif_push_sorted(&mut self, k: K, v: V) {
        self.insert(k, v);
    }
}

/// Byte-loop model of `core::slice::memchr::memchr` (std's version scans a word at a time behind
/// `align_offset`, which CBMC cannot afford). Same contract: index of the first `x` in `text`.
pub(crate) fn model_memchr(x: u8, text: &[u8]) -> Option<usize> {
    let mut i = 0;
    while i < text.len() {
        if text[i] == x {
            return Some(i);
        }
        i += 1;
    }
    None
}
