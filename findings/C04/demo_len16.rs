// Native demonstration: an option value of 65805 bytes (65535 + 269 + 1) was emitted with its
// 16-bit extended length wrapped to 0 (pre-fix tree); it must be refused.
use coap_lite::{CoapOption, Packet};

#[test]
fn option_value_too_long_for_16_bit_length_is_refused() {
    let mut p = Packet::new();
    p.add_option(CoapOption::ProxyUri, vec![b'x'; 65805]);
    assert!(p.to_bytes_unlimited().is_err(), "emitted with a truncated length field");
    let mut q = Packet::new();
    q.add_option(CoapOption::ProxyUri, vec![b'x'; 65804]);
    let bytes = q.to_bytes_unlimited().expect("largest encodable value");
    // Proxy-Uri = 35: delta nibble 13 (ext 22), length nibble 14 (ext 0xFFFF)
    assert_eq!(&bytes[4..8], &[0xDE, 22, 0xFF, 0xFF]);
    assert_eq!(bytes.len(), 4 + 1 + 1 + 2 + 65804);
}
