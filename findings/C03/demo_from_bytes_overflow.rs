// Native demonstration of the four overflow sites that c03_total_8 reported in Packet::from_bytes
// on the pinned tree (solver verdict: 4 x "attempt to add with overflow" at src/packet.rs:552, 560,
// 589, 604; Kani could not print concrete values for the 8-byte harness - trace generation ran out
// of memory - so the inputs below were derived from the failing checks by hand).
// Place in tests/ of the pre-fix tree (commit 2e11f64): every test panics (dev profile) or returns
// a wrong result (release). On the repaired tree every test passes.
use coap_lite::Packet;

#[test]
fn ext_delta_byte_ge_243_is_option_256_to_268() {
    // delta nibble 13, extension byte 245 => option number 258 (No-Response), empty value
    let p = Packet::from_bytes(&[0x40, 0x01, 0, 0, 0xD0, 245]).expect("well-formed datagram");
    assert!(p.get_option(coap_lite::CoapOption::NoResponse).is_some());
}

#[test]
fn ext_delta_16bit_past_65535_is_rejected_not_wrapped() {
    // delta nibble 14, extension 0xFFFF => 65535 + 269 > 65535: must be an error, not a panic / wrap
    assert!(Packet::from_bytes(&[0x40, 0x01, 0, 0, 0xE0, 0xFF, 0xFF]).is_err());
}

#[test]
fn ext_length_16bit_large_is_rejected_not_wrapped() {
    // length nibble 14, extension 0xFFFF => 65804 value bytes are missing: error, not a panic / wrap
    assert!(Packet::from_bytes(&[0x40, 0x01, 0, 0, 0x0E, 0xFF, 0xFF]).is_err());
}

#[test]
fn option_number_sum_past_65535_is_rejected() {
    // first option number 65535 (delta 14, ext 65266), second option delta 1 => 65536
    assert!(Packet::from_bytes(&[0x40, 0x01, 0, 0, 0xE0, 0xFE, 0xF2, 0x10]).is_err());
}
