// Native demonstration of the Unquote::to_cow defects that c17_cow reported on the pinned tree
// (solver verdict: a panic inside to_cow and "to_cow() and character iteration give the same
// length" violated; trace generation for the 3-byte harness ran out of memory, inputs derived by hand).
use coap_lite::link_format::LinkFormatParser;

fn value_of(doc: &str) -> (String, String) {
    let (_, mut attrs) = LinkFormatParser::new(doc).next().unwrap().unwrap();
    let (_, v) = attrs.next().unwrap();
    (v.to_cow().into_owned(), v.to_string())
}

#[test]
fn lone_quote_does_not_panic() {
    let (cow, chars) = value_of("</a>;t=\"");
    assert_eq!(cow, chars);
}

#[test]
fn unterminated_quoted_string_agrees() {
    let (cow, chars) = value_of("</a>;t=\"ab");
    assert_eq!(cow, chars);
}

#[test]
fn text_after_closing_quote_agrees() {
    let (cow, chars) = value_of("</a>;t=\"a\"b");
    assert_eq!(cow, chars);
}
