#!/usr/bin/env python3
"""Regenerates /verif/MANIFEST.json from the table below (kept by hand)."""
import json, os, sys
sys.path.insert(0, os.path.dirname(os.path.dirname(os.path.abspath(__file__))))
V = os.path.dirname(os.path.dirname(os.path.abspath(__file__)))

TB = ("Trusted: Kani 0.68 (rustc -> MIR -> GOTO), CBMC 6.11 symex and bit-blasting, CaDiCaL; Kani's allocator/ptr::copy/memcmp models; "
      "the runner's log classification. ")
CLAIMED = {}
NA = {}

def claim(pid, text, note, technique, ref):
    CLAIMED[pid] = dict(
        property_id=pid,
        quick_cmd="./check %s --tier quick" % pid,
        thorough_cmd="./check %s --tier thorough" % pid,
        evidence_file="/verif/evidence/%s.json" % pid,
        replay_cmd_template="./check %s --replay {path}" % pid,
        engine="kani-overlay",
        level_claimed=dict(category="model_checking", text=text, design_ref=ref),
        level_note=TB + note,
        technique=technique)

exec(open(os.path.join(V, "tools", "manifest_table.py")).read())

all_ids = [json.loads(l)["id"] for l in open(os.path.join(V, "properties.jsonl"))]
for pid in all_ids:
    assert (pid in CLAIMED) != (pid in NA), pid
m = dict(
    version=1,
    setup_cmd="./setup.sh",
    hooks=dict(
        guard="kani",
        enable="no source hooks: /verif/check copies /repo's working tree to a scratch overlay and appends `#[cfg(kani)] mod verif_harness` "
               "to the copy (cargo kani sets cfg(kani)); overlay-only cargo features verif_model / verif_cache_model select the container and cache-lookup models",
        baseline_off_cmd="cd /repo && cargo test --workspace --no-fail-fast --offline",
        source_commits=[],
        add_only=True),
    engines=[dict(name="kani-overlay", path="/verif/check", serves_properties=sorted(CLAIMED),
                  kind_free_text="bounded symbolic execution of the real Rust source (Kani 0.68 -> CBMC 6.11 -> CaDiCaL) on a woven scratch copy of /repo; "
                                 "counterexamples replayed natively with cargo kani playback")],
    checks=[CLAIMED[p] for p in all_ids if p in CLAIMED],
    not_applicable=[dict(property_id=p, reason=NA[p]) for p in all_ids if p in NA],
    notes="Every verdict is bounded: it reads 'holds for every value of the symbolic inputs inside the bounds listed in evidence/<id>.json'. "
          "exit 2 = inconclusive (time-out, out of memory, unwinding bound, vacuous harness, non-reproducing counterexample). "
          "Genuine defects found and repaired are listed in known_findings.json as fixed: entries.")
json.dump(m, open(os.path.join(V, "MANIFEST.json"), "w"), indent=1)
print("claimed:", sorted(CLAIMED), "n/a:", sorted(NA))
