# executed by gen_manifest.py: one claim(...) per property with a check, NA[...] otherwise
FMT = "Diagnostic text is outside the claim (core::fmt::write stubbed) unless the harness says otherwise. "
MODEL = "Option/resource maps are the fixed-capacity array model of /verif/engine/verif_alloc (differentially tested against std in setup; off in replay) unless the harness says it runs on std's containers. "

claim("C01",
      "The encoder is cut along its loop and every piece is decided symbolically against the RFC 7252 section 3.1 reference image: header/token (all first bytes, codes, ids, token 0..8), payload marker rule for all types, one option with every number (values of 1 and 13 bytes) and with every value length 0..300 (number 258), two options with every pair n1<n2, a repeated number, clear/re-add, public add_option with the higher number first; more lengths / numbers / orders in the thorough tier. The decode direction is C03; together they give decode(encode(m)) = m inside both bounds.",
      MODEL + FMT + "More than 2 distinct option numbers, value contents beyond one symbolic byte pattern, a symbolic number together with a symbolic length, and the ordering done by std's BTreeMap are outside.",
      "Kani/CBMC bounded model checking of to_bytes_internal against an RFC-derived reference encoder", "DESIGN.md section 3 C01")
claim("C02",
      "Composition (D) C03 framing equality of every accepted datagram up to 6 bytes (7 thorough) with the reference parse and content equality on single-option layouts + (E) C01 exact image of every structured message, plus direct parse->serialise queries on concrete layouts with all free bits symbolic (one option with extended delta and payload; lone trailing marker; payload of a 0.00 message; first bytes are constants).",
      MODEL + FMT + "The direct query over every byte string does not fit (out of memory at 6 bytes); the general claim rests on the composition and on the uniqueness of the RFC 7252 delta/length encoding.",
      "Kani/CBMC bounded model checking; composition of C03 and C01 plus direct re-encode on concrete layouts", "DESIGN.md section 3 C02")
claim("C03",
      "Every byte string of length 0..6 (quick; 0..7 and 0..8 thorough) is decided against a three-valued RFC 7252 reference parser: no panic/overflow/out-of-bounds read (Kani's implicit checks), must-reject => Err, must-accept => Ok; framing equality (numbers, lengths, counts, payload range) for every string up to 6 bytes (7 thorough); byte-for-byte content equality on concrete single-option layouts reaching one- and two-byte extended deltas and a one-byte extended length. The thorough tier adds the 7- and 8-byte verdict harnesses, the 7-byte framing harness and a two-option content layout (8-20 minutes, up to 22 GB each).",
      MODEL + FMT + "Datagrams longer than the bound are outside; that 8 bytes exercise the loop body from every loop state is an argument, not a query.",
      "Kani/CBMC bounded model checking of Packet::from_bytes against a three-valued reference parser", "DESIGN.md section 3 C03")
claim("C04",
      "Limit semantics decided for all limits (every usize) x symbolic payload / option / token lengths up to 1400 bytes: Ok with exactly the wire length iff it is within the limit, else a packet-length error; to_bytes = MAX_SIZE; unlimited always Ok. Every ptr::copy/set_len is checked by Kani against the allocation CBMC tracks for the preceding reserve (the memory-safety clause is decided by the solver, not by ASan). Thorough: option value lengths 65790..65820 around the 16-bit field limit.",
      MODEL + FMT + "One symbolic length per harness; values are zero-filled.",
      "Kani/CBMC bounded model checking with symbolic lengths and limits; pointer checks on the unsafe copies", "DESIGN.md section 3 C04")
claim("C05",
      "Every registry clause is decided over its whole finite domain as one symbolic variable (all 65536 option numbers, all 2^64 content-format ids, all 256 code bytes and first header bytes) against tables transcribed from the IANA registries; the dotted text form runs through the real core::fmt (and, thorough tier, str::parse) code.",
      "Oracle tables in /verif/harness/{header,packet}.rs are transcribed by hand from IANA/RFC text.",
      "Kani/CBMC bounded model checking of the real conversion functions, full finite domain symbolic", "DESIGN.md section 3 C05")
claim("C06",
      "Encoders decided for every value of each width (u8, u16, u32, u64 as one symbolic variable each) against a shortest-big-endian reference; decoders for every byte string of length 0..10; typed accessors on a packet for every pair of u32 values; text options for every byte string up to 3 bytes (4 thorough) against an independent RFC 3629 case table, with a byte-loop model standing in for std's validator.",
      MODEL + FMT + "Strings longer than 3 bytes are outside.",
      "Kani/CBMC bounded model checking, full-width symbolic integers", "DESIGN.md section 3 C06")
claim("C07",
      "CoapResponse::new / from_packet decided for every first header byte x code x message id x token length 0..8 with symbolic bytes; apply_from_error for every error code shape and message up to 3 bytes on a response without a content format (that the content-format setter replaces an existing value is decided under C19).",
      MODEL + FMT,
      "Kani/CBMC bounded model checking over the full header domain", "DESIGN.md section 3 C07")
claim("C08",
      "Decomposed: (a) one serve step from an arbitrary cached response x arbitrary block request (body 0..40 at block size 16; 0..80 at 32 thorough): payload slice, more flag, Block2 echo, option echo, request id/token; (b) cache release exactly after the final block, requests without Block2 / without a cached response, and the recorded-preference lemma; (c) block number, offset and more flag of the negotiated block. The reassembly statement is the sum of the steps over num = 0,1,2,... (argument, not a query). The ten lines of wiring inside intercept_response are NOT decided (CBMC does not finish on the public entry point, even for one concrete scenario).",
      MODEL + FMT + "Bodies above 80 bytes, block sizes above 32, the public entry points and the real LruCache (key mapping, expiry) are outside.",
      "Kani/CBMC bounded model checking, inductive step from an arbitrary cached state", "DESIGN.md section 3 C08")
claim("C10",
      "negotiate_block_size_if_necessary decided for all overheads, payloads, budgets in the property's band and client blocks (none / any num, szx 0..7): power of two 16..1024, <= client size, fits the budget, client size kept with 32 bytes to spare, unfragmented => fits; a bridge harness ties the measured overhead to real encoded messages (marker + block options within the 12-byte allowance); the 4.13 hint path of a request without Block1.",
      MODEL + FMT + "More than 2 pre-existing options in the bridge harness are outside.",
      "Kani/CBMC bounded model checking of the integer kernel at full range plus encoded-length bridge", "DESIGN.md section 3 C10")
claim("C11",
      "Partial: the negotiation kernel for every budget (all usize) / overhead / payload / client block never panics and errors carry a 4.xx/5.xx code; the overhead measurement returns for option bloat 0..1400 bytes (below, at, above 1280); an unservable block is an error with a code (serve step).",
      MODEL + FMT + "Every clause that runs through Vec::splice (requests carrying Block1, the 16 KiB growth bound, rejected-block-leaves-buffer-unchanged) is NOT decided: CBMC cannot execute Vec::splice (out of memory even on a concrete shape); the public entry points themselves are not decided either.",
      "Kani/CBMC bounded model checking; no-panic via Kani's implicit checks", "DESIGN.md section 3 C11")
claim("C12",
      "Partial: the two mechanisms isolation rests on are decided - the cache key (equal iff method and endpoint equal; segmentation and prefixes of enumerated paths distinguished) and the reply identity (every served block carries the id/token of the request being answered, from an arbitrary cached id/token).",
      MODEL + FMT + "The interleaving sentence itself (several transfers through one handler) needs the real cache and is not decided; that lru_time_cache keeps states of different keys apart is assumed. Path bytes are enumerated, not symbolic; from_utf8 is a byte-loop model.",
      "Kani/CBMC bounded model checking of key equality and reply identity", "DESIGN.md section 3 C12")
claim("C13",
      "Encode/decode decided for every (num: u16, more, szx 0..7); decode for every byte string of length 0..4; constructor for every (usize, bool, usize).",
      FMT,
      "Kani/CBMC bounded model checking, full domain symbolic", "DESIGN.md section 3 C13")
claim("C14",
      "Inductive steps from an arbitrary valid registry (resource with 2 observers of distinct symbolic endpoints, tokens 0..1 byte, any counters / pending ids, plus a bystander resource): register (replace in place / append / new resource), deregister, round on an unobserved path; every step re-establishes one-observer-per-endpoint and leaves the bystander untouched, so histories of any length inside the state bound are covered.",
      MODEL + FMT + "More than 2 observers per resource; the Uri-Path -> resource key mapping (only the empty path runs through get_path) are outside.",
      "Kani/CBMC bounded model checking, one inductive step per operation from an arbitrary pre-state", "DESIGN.md section 3 C14")
claim("C15",
      "Inductive steps: a notification round for every counter value 0..255 x every limit 0..255 x confirmable flag (kept iff new count <= limit computed without wrap-around); acknowledge for any endpoint / message id across two resources; create_notification for every id, sequence (u32), token 0..8, both types.",
      MODEL + FMT + "2^32 rounds on one resource (sequence wrap) are outside.",
      "Kani/CBMC bounded model checking, one inductive step per operation from an arbitrary pre-state", "DESIGN.md section 3 C15")
claim("C17",
      "One step of each scanner (link parser and Unquote: every remaining ASCII input of 0..4 bytes; attribute parser: thorough tier only, 0..4 bytes): no panic, yielded slices inside the input and in order, remaining input a strictly shorter suffix - induction over the suffix gives termination, ordering and nothing-after-error; to_cow() = character iteration for every ASCII string of 0..3 bytes.",
      "Non-ASCII input and longer strings are outside; runs on the real core::str / core::fmt code.",
      "Kani/CBMC bounded model checking, one scanner step from an arbitrary remaining input", "DESIGN.md section 3 C17")
claim("C18",
      "The fault schedule is the symbolic variable: a sink that fails at any write-call index (once or persistently), newline option on/off, documents of 2-3 links written through attr / attr_quoted / attr_u32 / attr_u16: finish() is Err iff a call failed, no call after the first failure, accepted bytes are a prefix of the fault-free run, no fault => Ok and complete output.",
      "The document shape is a concrete call sequence; other shapes are outside. Runs on the real core::fmt code.",
      "Kani/CBMC bounded model checking with a symbolic fault position", "DESIGN.md section 3 C18")
claim("C19",
      "Method / status accessors for all 256 code bytes; content format for every registered format on top of none / an earlier format / raw bytes; observe flag on raw bytes 0..6; both coap-message trait versions (flattened option view with symbolic numbers and a cleared option in between, copy through set_from_message, writers); path setter and getters on enumerated path strings, meeting at the raw Uri-Path values.",
      MODEL + FMT + "Path strings are enumerated (a/b, /a//, /, //a, empty), not symbolic: set_path/get_path on symbolic bytes ran out of memory; memchr and from_utf8 are byte-loop models in the path harnesses; empty segments are only counted.",
      "Kani/CBMC bounded model checking", "DESIGN.md section 3 C19")
NA["C09"] = "not applicable: every Block1 upload runs through Vec::splice (Drain/Splice drop glue), which CBMC cannot execute - out of memory at 24 GB even on a fully concrete shape; modelling splice would replace exactly the code the property is about. Only the 4.13 sentence (no splice) is decided, under C10."
NA["C16"] = "not applicable: one query needs writer + both scanners + Unquote on a document of >= 9 bytes with arbitrary Unicode; the link scanner alone exhausts memory at 5 symbolic ASCII bytes, and at what fits no document contains an attribute value."
NA["C20"] = "not applicable: expiry/retention/reclamation live in lru_time_cache over std's B-tree and VecDeque with Instant::now (FFI); with a symbolic clock three uses of a bare LruCache did not finish in 15 min. coap-lite's contribution is the wiring only."
