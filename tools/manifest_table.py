# executed by gen_manifest.py
claim("C05",
      "Every registry clause is decided over its whole finite domain as one symbolic variable (all 65536 option numbers, all 2^64 content-format ids, all 256 code bytes and first header bytes) against tables transcribed from the IANA registries; the dotted text form runs through the real core::fmt and str::parse code.",
      "Oracle tables in /verif/harness/{header,packet}.rs are transcribed by hand from IANA/RFC text. Kani models the dev profile.",
      "Kani/CBMC bounded model checking of the real conversion functions, full finite domain symbolic", "DESIGN.md section 3 C05")
claim("C06",
      "Encoders decided for every value of each width (u8, u16, u32, u64 as one symbolic variable each) against a shortest-big-endian reference; decoders for every byte string of length 0..10.",
      "Diagnostic text of the error is outside the claim (core::fmt::write stubbed).",
      "Kani/CBMC bounded model checking, full-width symbolic integers", "DESIGN.md section 3 C06")
claim("C13",
      "Encode/decode decided for every (num: u16, more, szx 0..7); decode for every byte string of length 0..4; constructor for every (usize, bool, usize).",
      "Diagnostic text outside the claim (core::fmt::write stubbed).",
      "Kani/CBMC bounded model checking, full domain symbolic", "DESIGN.md section 3 C13")
for p in ["C01","C02","C03","C04","C07","C08","C09","C10","C11","C12","C14","C15","C16","C17","C18","C19","C20"]:
    NA[p] = "check not built yet (build in progress); see DESIGN.md"
