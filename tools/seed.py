#!/usr/bin/env python3
"""Seeded-change bookkeeping.

  seed.py verify <out-dir> <X> <id> <property>   confirm a sub-agent's change X (patchX.diff, demoX.rs) in a fresh scratch
                                                 worktree of /repo; on success store it as /verif/seeded/<id>/
  seed.py run <id> [--tier quick]                apply seeded/<id>/patch.diff to a scratch worktree of /repo's HEAD, run the
                                                 check(s) of its property against it (VERIF_REPO), record the outcome in meta.json
"""
import json, os, re, shutil, subprocess, sys, time

V = os.path.dirname(os.path.dirname(os.path.abspath(__file__)))
REPO = "/repo"


def sh(cmd, cwd=None, env=None, timeout=3600):
    p = subprocess.run(cmd, cwd=cwd, env=env, shell=isinstance(cmd, str), stdout=subprocess.PIPE, stderr=subprocess.STDOUT,
                       text=True, timeout=timeout)
    return p.returncode, p.stdout


def worktree(path):
    shutil.rmtree(path, ignore_errors=True)
    sh(["git", "-C", REPO, "worktree", "prune"])
    rc, out = sh(["git", "-C", REPO, "worktree", "add", "-f", "--detach", path, "HEAD"])
    if rc != 0:
        raise SystemExit(out)
    shutil.copy(os.path.join(REPO, "Cargo.lock"), path)


def drop(path):
    sh(["git", "-C", REPO, "worktree", "remove", "--force", path])
    shutil.rmtree(path, ignore_errors=True)


def tests_summary(out):
    m = re.findall(r"test result: (\w+)\. (\d+) passed; (\d+) failed", out)
    return [(a, int(b), int(c)) for a, b, c in m]


def verify(outdir, x, sid, prop):
    patch = os.path.join(outdir, "patch%s.diff" % x)
    demo = os.path.join(outdir, "demo%s.rs" % x)
    notes = os.path.join(outdir, "notes%s.md" % x)
    wt = "/tmp/seedverify.%s" % sid
    worktree(wt)
    env = dict(os.environ, CARGO_NET_OFFLINE="true", CARGO_TARGET_DIR=wt + "/target")
    res = dict(id=sid, property=prop)
    try:
        os.makedirs(wt + "/tests")
        shutil.copy(demo, wt + "/tests/demo.rs")
        rc, out = sh("cargo test --offline --test demo 2>&1", cwd=wt, env=env)
        base = tests_summary(out)
        res["demo_without_change"] = base
        ok_base = rc == 0 and base and all(f == 0 for _, _, f in base)
        rc, out = sh(["git", "apply", patch], cwd=wt)
        if rc != 0:
            print("patch does not apply:", out)
            return None
        rc, out = sh("cargo test --offline --lib 2>&1", cwd=wt, env=env)
        suite = tests_summary(out)
        res["suite_with_change"] = suite
        ok_suite = rc == 0 and suite and suite[0][1] == 49 and suite[0][2] == 0
        rc, out = sh("cargo test --offline --test demo 2>&1", cwd=wt, env=env)
        with_change = tests_summary(out)
        res["demo_with_change"] = with_change
        ok_fail = rc != 0 and any(f > 0 for _, _, f in with_change)
        print(json.dumps(res))
        if not (ok_base and ok_suite and ok_fail):
            print("NOT CONFIRMED: base_ok=%s suite_ok=%s demo_fails=%s" % (ok_base, ok_suite, ok_fail))
            return None
    finally:
        drop(wt)
    d = os.path.join(V, "seeded", sid)
    os.makedirs(d, exist_ok=True)
    shutil.copy(patch, os.path.join(d, "patch.diff"))
    shutil.copy(demo, os.path.join(d, "demo.rs"))
    meta = dict(id=sid, breaks_property=prop, origin="independent sub-agent given only the property text and a scratch worktree",
                needs_to_manifest=open(notes).read() if os.path.isfile(notes) else "",
                confirmed=dict(what_i_ran="fresh worktree of /repo HEAD: demo passes; git apply patch.diff: cargo test --lib = 49 passed, demo fails",
                               demo_without_change=res["demo_without_change"], suite_with_change=res["suite_with_change"],
                               demo_with_change=res["demo_with_change"], repo_head=sh(["git", "-C", REPO, "rev-parse", "--short", "HEAD"])[1].strip()),
                checks=[])
    json.dump(meta, open(os.path.join(d, "meta.json"), "w"), indent=1)
    print("CONFIRMED -> seeded/%s" % sid)
    return d


def run(sid, tier="quick", props=None):
    d = os.path.join(V, "seeded", sid)
    meta = json.load(open(os.path.join(d, "meta.json")))
    props = props or [meta["breaks_property"]]
    wt = "/tmp/seedrun.%s" % sid
    worktree(wt)
    try:
        rc, out = sh(["git", "apply", os.path.join(d, "patch.diff")], cwd=wt)
        if rc != 0:
            print("patch does not apply to HEAD:", out)
            return
        for prop in props:
            env = dict(os.environ, VERIF_REPO=wt, VERIF_NO_EVIDENCE="1")
            t0 = time.time()
            rc, out = sh([os.path.join(V, "check"), prop, "--tier", tier], cwd=V, env=env, timeout=6 * 3600)
            viol = re.findall(r"VIOLATION property=(\S+) replay=(\S+)", out)
            fails = re.findall(r"failing check: (.*)", out)
            incon = re.findall(r"\[(\w+)\] INCONCLUSIVE: (.*)", out)
            entry = dict(property=prop, tier=tier, exit=rc, detected=(rc == 1), wall_s=round(time.time() - t0),
                         failing_checks=fails[:8], inconclusive=incon[:8],
                         ran="git worktree of /repo HEAD + git apply patch.diff; VERIF_REPO=<worktree> ./check %s --tier %s" % (prop, tier))
            meta["checks"] = [c for c in meta["checks"] if not (c["property"] == prop and c["tier"] == tier)] + [entry]
            print("%s %s: exit=%d detected=%s %s" % (sid, prop, rc, rc == 1, fails[:2] or incon[:2]))
            # keep the replay artefact next to the seed
            for _, rp in viol:
                if os.path.isfile(rp):
                    shutil.copy(rp, os.path.join(d, "replay_" + os.path.basename(rp)))
        json.dump(meta, open(os.path.join(d, "meta.json"), "w"), indent=1)
    finally:
        drop(wt)


if __name__ == "__main__":
    a = sys.argv[1:]
    if a[0] == "verify":
        verify(a[1], a[2], a[3], a[4])
    elif a[0] == "run":
        tier = "quick"
        props = None
        if "--tier" in a:
            tier = a[a.index("--tier") + 1]
        if "--props" in a:
            props = a[a.index("--props") + 1].split(",")
        run(a[1], tier, props)
