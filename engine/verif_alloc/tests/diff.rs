//! Differential test of the container models against `std` on pseudo-random
//! operation sequences (run by MANIFEST.setup_cmd). The model has a fixed
//! capacity; sequences are generated so that the number of distinct keys stays
//! within it.
use std::collections::BTreeMap as StdMap;
use std::collections::LinkedList as StdList;
use verif_alloc::collections::btree_map::CAP;
use verif_alloc::collections::linked_list::LCAP;
use verif_alloc::collections::BTreeMap as ModMap;
use verif_alloc::collections::LinkedList as ModList;

struct Lcg(u64);
impl Lcg {
    fn next(&mut self) -> u64 {
        self.0 = self.0.wrapping_mul(6364136223846793005).wrapping_add(1442695040888963407);
        self.0 >> 33
    }
}

fn same(m: &ModMap<u16, ModList<Vec<u8>>>, s: &StdMap<u16, StdList<Vec<u8>>>) {
    assert_eq!(m.len(), s.len());
    assert_eq!(m.is_empty(), s.is_empty());
    let a: Vec<(u16, Vec<Vec<u8>>)> = m.iter().map(|(k, v)| (*k, v.iter().cloned().collect())).collect();
    let b: Vec<(u16, Vec<Vec<u8>>)> = s.iter().map(|(k, v)| (*k, v.iter().cloned().collect())).collect();
    assert_eq!(a, b);
}

#[test]
fn btreemap_and_linkedlist_agree_with_std() {
    for seed in 0..400u64 {
        let mut r = Lcg(seed * 7919 + 1);
        let mut m: ModMap<u16, ModList<Vec<u8>>> = ModMap::new();
        let mut s: StdMap<u16, StdList<Vec<u8>>> = StdMap::new();
        // key universe no larger than the capacity, spread over the u16 range
        let keys: Vec<u16> = (0..CAP).map(|_| (r.next() % 65536) as u16).collect();
        for _ in 0..60 {
            let k = keys[(r.next() as usize) % keys.len()];
            let v = vec![(r.next() % 256) as u8; (r.next() % 3) as usize];
            match r.next() % 9 {
                0 => {
                    if s.get(&k).map(|l| l.len()).unwrap_or(0) < LCAP {
                        m.entry(k).or_default().push_back(v.clone());
                        s.entry(k).or_default().push_back(v);
                    }
                }
                1 => {
                    let mut l1 = ModList::new();
                    l1.push_back(v.clone());
                    let mut l2 = StdList::new();
                    l2.push_back(v);
                    let a = m.insert(k, l1).map(|l| l.iter().cloned().collect::<Vec<_>>());
                    let b = s.insert(k, l2).map(|l| l.iter().cloned().collect::<Vec<_>>());
                    assert_eq!(a, b);
                }
                2 => {
                    let a = m.remove(&k).map(|l| l.iter().cloned().collect::<Vec<_>>());
                    let b = s.remove(&k).map(|l| l.iter().cloned().collect::<Vec<_>>());
                    assert_eq!(a, b);
                }
                3 => {
                    if s.get(&k).map(|l| l.len()).unwrap_or(LCAP) < LCAP {
                        if let Some(l) = m.get_mut(&k) {
                            l.push_back(v.clone());
                        }
                        if let Some(l) = s.get_mut(&k) {
                            l.push_back(v);
                        }
                    }
                }
                4 => {
                    if let Some(l) = m.get_mut(&k) {
                        l.clear();
                    }
                    if let Some(l) = s.get_mut(&k) {
                        l.clear();
                    }
                }
                5 => {
                    assert_eq!(m.contains_key(&k), s.contains_key(&k));
                    assert_eq!(
                        m.get(&k).and_then(|l| l.front().cloned()),
                        s.get(&k).and_then(|l| l.front().cloned())
                    );
                    assert_eq!(
                        m.get(&k).and_then(|l| l.back().cloned()),
                        s.get(&k).and_then(|l| l.back().cloned())
                    );
                    assert_eq!(m.get(&k).map(|l| l.len()), s.get(&k).map(|l| l.len()));
                }
                6 => {
                    let c = m.clone();
                    assert!(c == m);
                    same(&c, &s);
                }
                7 => {
                    if s.get(&k).map(|l| l.len()).unwrap_or(0) < LCAP {
                        m.entry(k).and_modify(|l| l.push_back(vec![9])).or_insert_with(ModList::new);
                        s.entry(k).and_modify(|l| l.push_back(vec![9])).or_insert_with(StdList::new);
                    }
                }
                _ => {
                    if r.next() % 16 == 0 {
                        m.clear();
                        s.clear();
                    }
                    for (_, l) in m.iter_mut() {
                        for x in l.iter_mut() {
                            x.push(1);
                        }
                    }
                    for (_, l) in s.iter_mut() {
                        for x in l.iter_mut() {
                            x.push(1);
                        }
                    }
                }
            }
            same(&m, &s);
        }
    }
}

#[test]
fn string_keys_agree_with_std() {
    for seed in 0..200u64 {
        let mut r = Lcg(seed * 104729 + 3);
        let mut m: ModMap<String, u32> = ModMap::new();
        let mut s: StdMap<String, u32> = StdMap::new();
        let names = ["", "a", "a/b", "b", "ab"];
        for _ in 0..40 {
            let k = names[(r.next() as usize) % CAP.min(names.len())].to_string();
            let v = r.next() as u32;
            match r.next() % 4 {
                0 => {
                    *m.entry(k.clone()).or_insert(0) = v;
                    *s.entry(k).or_insert(0) = v;
                }
                1 => {
                    assert_eq!(m.remove(k.as_str()), s.remove(k.as_str()));
                }
                2 => {
                    assert_eq!(m.get(k.as_str()), s.get(k.as_str()));
                }
                _ => {
                    m.entry(k.clone()).and_modify(|x| *x = x.wrapping_add(1));
                    s.entry(k).and_modify(|x| *x = x.wrapping_add(1));
                }
            }
            let a: Vec<(String, u32)> = m.iter().map(|(k, v)| (k.clone(), *v)).collect();
            let b: Vec<(String, u32)> = s.iter().map(|(k, v)| (k.clone(), *v)).collect();
            assert_eq!(a, b);
        }
    }
}

#[test]
fn list_conversions_agree() {
    let a: ModList<u8> = [1u8, 2, 3].into();
    let b: StdList<u8> = [1u8, 2, 3].into();
    assert_eq!(a.iter().copied().collect::<Vec<_>>(), b.iter().copied().collect::<Vec<_>>());
    let c: ModList<u8> = vec![4u8, 5].into_iter().collect();
    assert_eq!(c.into_iter().collect::<Vec<_>>(), vec![4, 5]);
}
