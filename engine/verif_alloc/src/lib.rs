//! Facade over `alloc` that swaps BTreeMap / LinkedList for solver-friendly models.
#![no_std]
pub extern crate alloc as real;

pub use real::{alloc, borrow, boxed, fmt, rc, slice, str, string, sync, vec};

pub use real::format;

pub mod collections {
    pub use crate::real::collections::{BTreeSet, BinaryHeap, VecDeque};
    pub use btree_map::BTreeMap;
    pub use linked_list::LinkedList;

    pub mod btree_map {
        use core::borrow::Borrow;
        use core::mem::ManuallyDrop;

        const fn parse_cap(s: &str) -> usize {
            let b = s.as_bytes();
            let mut i = 0;
            let mut v = 0;
            while i < b.len() {
                v = v * 10 + (b[i] - b'0') as usize;
                i += 1;
            }
            v
        }
        pub const CAP: usize = match option_env!("VERIF_MAP_CAP") {
            Some(s) => parse_cap(s),
            None => 4,
        };

        /// Sorted fixed-capacity array map; every loop runs over concrete indices.
        pub struct BTreeMap<K, V> {
            a: ManuallyDrop<[Option<(K, V)>; CAP]>,
            n: usize,
        }

        impl<K, V> Default for BTreeMap<K, V> {
            fn default() -> Self {
                Self::new()
            }
        }

        impl<K: Clone, V: Clone> Clone for BTreeMap<K, V> {
            fn clone(&self) -> Self {
                let mut m = Self::new();
                let mut j = 0;
                while j < CAP {
                    if j < self.n {
                        m.a[j] = self.a[j].clone();
                    }
                    j += 1;
                }
                m.n = self.n;
                m
            }
        }

        impl<K: PartialEq, V: PartialEq> PartialEq for BTreeMap<K, V> {
            fn eq(&self, o: &Self) -> bool {
                if self.n != o.n {
                    return false;
                }
                let mut j = 0;
                while j < CAP {
                    if j < self.n && self.a[j] != o.a[j] {
                        return false;
                    }
                    j += 1;
                }
                true
            }
        }

        impl<K: core::fmt::Debug, V: core::fmt::Debug> core::fmt::Debug for BTreeMap<K, V> {
            fn fmt(&self, f: &mut core::fmt::Formatter<'_>) -> core::fmt::Result {
                f.debug_map().entries(self.iter()).finish()
            }
        }

        /// Index-based iterators: the loop condition is an integer comparison that CBMC's symbolic
        /// execution decides concretely whenever the entry count is concrete (a pointer-pair slice iterator
        /// is unwound to the bound instead, which made `for (k, v) in map` loops dominate every query).
        pub struct Iter<'a, K, V> {
            a: &'a [Option<(K, V)>; CAP],
            i: usize,
            n: usize,
        }
        impl<'a, K, V> Iterator for Iter<'a, K, V> {
            type Item = (&'a K, &'a V);
            fn next(&mut self) -> Option<Self::Item> {
                if self.i < self.n && self.i < CAP {
                    let cell = &self.a[self.i];
                    self.i += 1;
                    match cell {
                        Some(kv) => Some((&kv.0, &kv.1)),
                        None => None,
                    }
                } else {
                    None
                }
            }
            fn size_hint(&self) -> (usize, Option<usize>) {
                (self.n - self.i, Some(self.n - self.i))
            }
        }
        impl<K, V> ExactSizeIterator for Iter<'_, K, V> {}

        pub struct IterMut<'a, K, V> {
            p: *mut Option<(K, V)>,
            i: usize,
            n: usize,
            _m: core::marker::PhantomData<&'a mut (K, V)>,
        }
        impl<'a, K, V> Iterator for IterMut<'a, K, V> {
            type Item = (&'a K, &'a mut V);
            fn next(&mut self) -> Option<Self::Item> {
                if self.i < self.n && self.i < CAP {
                    // each index is handed out once, so the &mut references do not alias
                    let cell: &'a mut Option<(K, V)> = unsafe { &mut *self.p.add(self.i) };
                    self.i += 1;
                    match cell {
                        Some(kv) => Some((&kv.0, &mut kv.1)),
                        None => None,
                    }
                } else {
                    None
                }
            }
        }

        pub enum Entry<'a, K, V> {
            Occupied(&'a mut BTreeMap<K, V>, usize),
            Vacant(&'a mut BTreeMap<K, V>, K),
        }

        impl<'a, K: Ord, V> Entry<'a, K, V> {
            pub fn or_insert(self, default: V) -> &'a mut V {
                match self {
                    Entry::Occupied(m, i) => m.slot(i),
                    Entry::Vacant(m, k) => {
                        let i = m.insert_sorted(k, default);
                        m.slot(i)
                    }
                }
            }
            pub fn or_insert_with<F: FnOnce() -> V>(self, f: F) -> &'a mut V {
                match self {
                    Entry::Occupied(m, i) => m.slot(i),
                    Entry::Vacant(m, k) => {
                        let i = m.insert_sorted(k, f());
                        m.slot(i)
                    }
                }
            }
            pub fn or_default(self) -> &'a mut V
            where
                V: Default,
            {
                self.or_insert_with(V::default)
            }
            pub fn and_modify<F: FnOnce(&mut V)>(self, f: F) -> Self {
                match self {
                    Entry::Occupied(m, i) => {
                        f(m.slot_ref(i));
                        Entry::Occupied(m, i)
                    }
                    e => e,
                }
            }
        }

        impl<K, V> BTreeMap<K, V> {
            pub fn new() -> Self {
                BTreeMap {
                    a: ManuallyDrop::new(core::array::from_fn(|_| None)),
                    n: 0,
                }
            }
            /// Harness-only: append at the next slot without any comparison; the caller
            /// guarantees (assumes) that `k` is larger than every key present.
            pub fn verif_push_sorted(&mut self, k: K, v: V) {
                assert!(self.n < CAP, "verif model: BTreeMap capacity exceeded");
                let i = self.n;
                self.a[i] = Some((k, v));
                self.n += 1;
            }
            pub fn len(&self) -> usize {
                self.n
            }
            pub fn is_empty(&self) -> bool {
                self.n == 0
            }
            pub fn clear(&mut self) {
                let mut j = 0;
                while j < CAP {
                    self.a[j] = None;
                    j += 1;
                }
                self.n = 0;
            }
            pub fn iter(&self) -> Iter<'_, K, V> {
                Iter { a: &self.a, i: 0, n: self.n }
            }
            pub fn iter_mut(&mut self) -> IterMut<'_, K, V> {
                let n = self.n;
                IterMut { p: self.a.as_mut_ptr(), i: 0, n, _m: core::marker::PhantomData }
            }
            fn slot<'a>(&'a mut self, i: usize) -> &'a mut V {
                let mut j = 0;
                for cell in self.a.iter_mut() {
                    if j == i {
                        if let Some(kv) = cell {
                            return &mut kv.1;
                        }
                    }
                    j += 1;
                }
                unreachable!()
            }
            fn slot_ref(&mut self, i: usize) -> &mut V {
                self.slot(i)
            }
        }

        impl<K: Ord, V> BTreeMap<K, V> {
            fn find<Q: ?Sized + Ord>(&self, k: &Q) -> Option<usize>
            where
                K: Borrow<Q>,
            {
                let mut j = 0;
                while j < CAP {
                    if j < self.n {
                        if let Some(kv) = &self.a[j] {
                            if kv.0.borrow() == k {
                                return Some(j);
                            }
                        }
                    }
                    j += 1;
                }
                None
            }
            fn insert_sorted(&mut self, k: K, val: V) -> usize {
                assert!(self.n < CAP, "verif model: BTreeMap capacity exceeded");
                // position = number of keys smaller than k
                let mut pos = 0;
                let mut j = 0;
                while j < CAP {
                    if j < self.n {
                        if let Some(kv) = &self.a[j] {
                            if kv.0 < k {
                                pos += 1;
                            }
                        }
                    }
                    j += 1;
                }
                // shift right, concrete indices
                let mut j = CAP - 1;
                while j > 0 {
                    if j > pos && j <= self.n {
                        self.a[j] = self.a[j - 1].take();
                    }
                    j -= 1;
                }
                let mut item = Some((k, val));
                let mut j = 0;
                while j < CAP {
                    if j == pos {
                        self.a[j] = item.take();
                    }
                    j += 1;
                }
                self.n += 1;
                pos
            }
            pub fn get<Q: ?Sized + Ord>(&self, k: &Q) -> Option<&V>
            where
                K: Borrow<Q>,
            {
                let mut j = 0;
                while j < CAP {
                    if j < self.n {
                        if let Some(kv) = &self.a[j] {
                            if kv.0.borrow() == k {
                                return Some(&kv.1);
                            }
                        }
                    }
                    j += 1;
                }
                None
            }
            pub fn get_mut<Q: ?Sized + Ord>(&mut self, k: &Q) -> Option<&mut V>
            where
                K: Borrow<Q>,
            {
                let n = self.n;
                let mut j = 0;
                for cell in self.a.iter_mut() {
                    if j < n {
                        if let Some(kv) = cell {
                            if kv.0.borrow() == k {
                                return Some(&mut kv.1);
                            }
                        }
                    }
                    j += 1;
                }
                None
            }
            pub fn contains_key<Q: ?Sized + Ord>(&self, k: &Q) -> bool
            where
                K: Borrow<Q>,
            {
                self.find(k).is_some()
            }
            pub fn insert(&mut self, k: K, val: V) -> Option<V> {
                match self.find(&k) {
                    Some(i) => Some(core::mem::replace(self.slot(i), val)),
                    None => {
                        self.insert_sorted(k, val);
                        None
                    }
                }
            }
            pub fn remove<Q: ?Sized + Ord>(&mut self, k: &Q) -> Option<V>
            where
                K: Borrow<Q>,
            {
                let pos = match self.find(k) {
                    Some(p) => p,
                    None => return None,
                };
                let mut out: Option<(K, V)> = None;
                let mut j = 0;
                while j < CAP {
                    if j == pos {
                        out = self.a[j].take();
                    }
                    j += 1;
                }
                let mut j = 0;
                while j + 1 < CAP {
                    if j >= pos && j + 1 < self.n {
                        self.a[j] = self.a[j + 1].take();
                    }
                    j += 1;
                }
                self.n -= 1;
                match out {
                    Some(kv) => Some(kv.1),
                    None => None,
                }
            }
            pub fn entry(&mut self, k: K) -> Entry<'_, K, V> {
                match self.find(&k) {
                    Some(i) => Entry::Occupied(self, i),
                    None => Entry::Vacant(self, k),
                }
            }
        }

        impl<K: Ord, Q: ?Sized + Ord, V> core::ops::Index<&Q> for BTreeMap<K, V>
        where
            K: Borrow<Q>,
        {
            type Output = V;
            fn index(&self, k: &Q) -> &V {
                match self.get(k) {
                    Some(v) => v,
                    None => panic!("no entry found for key"),
                }
            }
        }

        impl<'a, K, V> IntoIterator for &'a BTreeMap<K, V> {
            type Item = (&'a K, &'a V);
            type IntoIter = Iter<'a, K, V>;
            fn into_iter(self) -> Iter<'a, K, V> {
                self.iter()
            }
        }
    }

    /// Two list models: the default keeps the elements in a heap `Vec` (cheap to move, elements behind one
    /// pointer); feature `inline_list` keeps them inside the struct (no pointer to case-split on when an element
    /// is read through a symbolic map cell, but large structs to move). Harnesses choose with `ilist=1`.
    #[cfg(not(feature = "inline_list"))]
    pub mod linked_list {
        use crate::real::vec::Vec;
        /// (the heap-backed list has no capacity limit; the constant exists so that callers can bound tests)
        pub const LCAP: usize = 4;

        #[derive(Debug, Clone, PartialEq, Eq)]
        pub struct LinkedList<T> {
            v: core::mem::ManuallyDrop<Vec<T>>,
        }
        impl<T> Default for LinkedList<T> {
            fn default() -> Self {
                LinkedList { v: core::mem::ManuallyDrop::new(Vec::with_capacity(4)) }
            }
        }
        pub struct Iter<'a, T> {
            v: &'a Vec<T>,
            i: usize,
        }
        impl<'a, T> Iterator for Iter<'a, T> {
            type Item = &'a T;
            fn next(&mut self) -> Option<&'a T> {
                if self.i < self.v.len() {
                    let r = &self.v[self.i];
                    self.i += 1;
                    Some(r)
                } else {
                    None
                }
            }
            fn size_hint(&self) -> (usize, Option<usize>) {
                let r = self.v.len() - self.i;
                (r, Some(r))
            }
            fn nth(&mut self, n: usize) -> Option<&'a T> {
                let j = self.i + n;
                if j < self.v.len() {
                    self.i = j + 1;
                    Some(&self.v[j])
                } else {
                    self.i = self.v.len();
                    None
                }
            }
        }
        impl<T> ExactSizeIterator for Iter<'_, T> {}
        pub struct IterMut<'a, T> {
            inner: core::slice::IterMut<'a, T>,
        }
        impl<'a, T> Iterator for IterMut<'a, T> {
            type Item = &'a mut T;
            fn next(&mut self) -> Option<&'a mut T> {
                self.inner.next()
            }
        }
        pub struct IntoIter<T> {
            inner: crate::real::vec::IntoIter<T>,
        }
        impl<T> Iterator for IntoIter<T> {
            type Item = T;
            fn next(&mut self) -> Option<T> {
                self.inner.next()
            }
        }
        impl<T> LinkedList<T> {
            pub fn new() -> Self {
                LinkedList { v: core::mem::ManuallyDrop::new(Vec::with_capacity(4)) }
            }
            pub fn push_back(&mut self, t: T) {
                self.v.push(t)
            }
            pub fn front(&self) -> Option<&T> {
                self.v.first()
            }
            pub fn back(&self) -> Option<&T> {
                self.v.last()
            }
            pub fn len(&self) -> usize {
                self.v.len()
            }
            pub fn is_empty(&self) -> bool {
                self.v.is_empty()
            }
            pub fn clear(&mut self) {
                self.v.clear()
            }
            pub fn iter(&self) -> Iter<'_, T> {
                Iter { v: &self.v, i: 0 }
            }
            pub fn iter_mut(&mut self) -> IterMut<'_, T> {
                IterMut { inner: self.v.iter_mut() }
            }
        }
        impl<T> IntoIterator for LinkedList<T> {
            type Item = T;
            type IntoIter = IntoIter<T>;
            fn into_iter(self) -> IntoIter<T> {
                IntoIter { inner: core::mem::ManuallyDrop::into_inner(self.v).into_iter() }
            }
        }
        impl<'a, T> IntoIterator for &'a LinkedList<T> {
            type Item = &'a T;
            type IntoIter = Iter<'a, T>;
            fn into_iter(self) -> Iter<'a, T> {
                self.iter()
            }
        }
        impl<T> FromIterator<T> for LinkedList<T> {
            fn from_iter<I: IntoIterator<Item = T>>(it: I) -> Self {
                let mut l = LinkedList::new();
                for x in it {
                    l.push_back(x);
                }
                l
            }
        }
        impl<T, const N: usize> From<[T; N]> for LinkedList<T> {
            fn from(a: [T; N]) -> Self {
                let mut l = LinkedList::new();
                for x in a {
                    l.push_back(x);
                }
                l
            }
        }
    }

    #[cfg(feature = "inline_list")]
    pub mod linked_list {
        use core::mem::ManuallyDrop;

        const fn parse_cap(s: &str) -> usize {
            let b = s.as_bytes();
            let mut i = 0;
            let mut v = 0;
            while i < b.len() {
                v = v * 10 + (b[i] - b'0') as usize;
                i += 1;
            }
            v
        }
        /// Capacity of one list (values under one option number); exceeding it trips a model assertion.
        pub const LCAP: usize = match option_env!("VERIF_LIST_CAP") {
            Some(s) => parse_cap(s),
            None => 4,
        };

        /// Inline fixed-capacity list: the elements live inside the struct (and therefore inside the map
        /// cell), so reaching an element never goes through a heap pointer that CBMC has to case-split on.
        /// Every loop runs over concrete indices.
        pub struct LinkedList<T> {
            a: ManuallyDrop<[Option<T>; LCAP]>,
            n: usize,
        }
        impl<T> Default for LinkedList<T> {
            fn default() -> Self {
                Self::new()
            }
        }
        impl<T: Clone> Clone for LinkedList<T> {
            fn clone(&self) -> Self {
                let mut l = Self::new();
                let mut j = 0;
                while j < LCAP {
                    if j < self.n {
                        l.a[j] = self.a[j].clone();
                    }
                    j += 1;
                }
                l.n = self.n;
                l
            }
        }
        impl<T: PartialEq> PartialEq for LinkedList<T> {
            fn eq(&self, o: &Self) -> bool {
                if self.n != o.n {
                    return false;
                }
                let mut j = 0;
                while j < LCAP {
                    if j < self.n && self.a[j] != o.a[j] {
                        return false;
                    }
                    j += 1;
                }
                true
            }
        }
        impl<T: Eq> Eq for LinkedList<T> {}
        impl<T: core::fmt::Debug> core::fmt::Debug for LinkedList<T> {
            fn fmt(&self, f: &mut core::fmt::Formatter<'_>) -> core::fmt::Result {
                f.debug_list().entries(self.iter()).finish()
            }
        }
        pub struct Iter<'a, T> {
            a: &'a [Option<T>; LCAP],
            i: usize,
            n: usize,
        }
        impl<'a, T> Iterator for Iter<'a, T> {
            type Item = &'a T;
            fn next(&mut self) -> Option<&'a T> {
                if self.i < self.n && self.i < LCAP {
                    let r = self.a[self.i].as_ref();
                    self.i += 1;
                    r
                } else {
                    None
                }
            }
            fn size_hint(&self) -> (usize, Option<usize>) {
                let r = self.n - self.i;
                (r, Some(r))
            }
            fn nth(&mut self, k: usize) -> Option<&'a T> {
                let j = self.i + k;
                if j < self.n && j < LCAP {
                    self.i = j + 1;
                    self.a[j].as_ref()
                } else {
                    self.i = self.n;
                    None
                }
            }
        }
        impl<T> ExactSizeIterator for Iter<'_, T> {}
        pub struct IterMut<'a, T> {
            p: *mut Option<T>,
            i: usize,
            n: usize,
            _m: core::marker::PhantomData<&'a mut T>,
        }
        impl<'a, T> Iterator for IterMut<'a, T> {
            type Item = &'a mut T;
            fn next(&mut self) -> Option<&'a mut T> {
                if self.i < self.n && self.i < LCAP {
                    // each index is handed out once, so the &mut references do not alias
                    let cell: &'a mut Option<T> = unsafe { &mut *self.p.add(self.i) };
                    self.i += 1;
                    cell.as_mut()
                } else {
                    None
                }
            }
        }
        pub struct IntoIter<T> {
            l: LinkedList<T>,
            i: usize,
        }
        impl<T> Iterator for IntoIter<T> {
            type Item = T;
            fn next(&mut self) -> Option<T> {
                if self.i < self.l.n && self.i < LCAP {
                    let r = self.l.a[self.i].take();
                    self.i += 1;
                    r
                } else {
                    None
                }
            }
        }
        impl<T> LinkedList<T> {
            pub fn new() -> Self {
                LinkedList { a: ManuallyDrop::new(core::array::from_fn(|_| None)), n: 0 }
            }
            pub fn push_back(&mut self, t: T) {
                assert!(self.n < LCAP, "verif model: LinkedList capacity exceeded");
                let mut item = Some(t);
                let mut j = 0;
                while j < LCAP {
                    if j == self.n {
                        self.a[j] = item.take();
                    }
                    j += 1;
                }
                self.n += 1;
            }
            pub fn front(&self) -> Option<&T> {
                if self.n == 0 {
                    None
                } else {
                    self.a[0].as_ref()
                }
            }
            pub fn back(&self) -> Option<&T> {
                let mut j = LCAP;
                while j > 0 {
                    if j == self.n {
                        return self.a[j - 1].as_ref();
                    }
                    j -= 1;
                }
                None
            }
            pub fn len(&self) -> usize {
                self.n
            }
            pub fn is_empty(&self) -> bool {
                self.n == 0
            }
            pub fn clear(&mut self) {
                let mut j = 0;
                while j < LCAP {
                    self.a[j] = None;
                    j += 1;
                }
                self.n = 0;
            }
            pub fn iter(&self) -> Iter<'_, T> {
                Iter { a: &self.a, i: 0, n: self.n }
            }
            pub fn iter_mut(&mut self) -> IterMut<'_, T> {
                let n = self.n;
                IterMut { p: self.a.as_mut_ptr(), i: 0, n, _m: core::marker::PhantomData }
            }
        }
        impl<T> IntoIterator for LinkedList<T> {
            type Item = T;
            type IntoIter = IntoIter<T>;
            fn into_iter(self) -> IntoIter<T> {
                IntoIter { l: self, i: 0 }
            }
        }
        impl<'a, T> IntoIterator for &'a LinkedList<T> {
            type Item = &'a T;
            type IntoIter = Iter<'a, T>;
            fn into_iter(self) -> Iter<'a, T> {
                self.iter()
            }
        }
        impl<T> FromIterator<T> for LinkedList<T> {
            fn from_iter<I: IntoIterator<Item = T>>(it: I) -> Self {
                let mut l = LinkedList::new();
                for x in it {
                    l.push_back(x);
                }
                l
            }
        }
        impl<T, const N: usize> From<[T; N]> for LinkedList<T> {
            fn from(a: [T; N]) -> Self {
                let mut l = LinkedList::new();
                for x in a {
                    l.push_back(x);
                }
                l
            }
        }
    }
}
