"""Overlay copy of lru_time_cache 0.11.11 with the cache-lookup model (DESIGN.md section 2).

make_copy(src, dst): copies the crate source from the cargo registry and adds, under the cargo
feature `verif_cache_model` of the copy, an `LruCache::entry` that returns an occupied entry
around a harness-owned value (`VERIF_STATE_PTR`). With the feature off the copy is the original
code (only the crate-level lint block is removed so that it builds as a path dependency and the
two optional/dev dependencies that are not in the offline registry are dropped)."""
import os, re, shutil


def make_copy(src, dst):
    shutil.copytree(src, dst)
    lib = os.path.join(dst, "src", "lib.rs")
    s = open(lib).read()
    # 1. strip the crate-level lint attributes (forbid(warnings) breaks path builds on newer rustc)
    s2, n = re.subn(r"#!\[(forbid|deny|warn|allow)\((?:.|\n)*?\)\]\n", "", s)
    s = "#![allow(warnings)]\n" + s2
    # 2. the hook
    anchor = "    pub fn entry(&mut self, key: Key) -> Entry<'_, Key, Value> {"
    if s.count(anchor) != 1:
        raise RuntimeError("lru_time_cache: anchor for entry() not found")
    hook = (
        "    #[cfg(feature = \"verif_cache_model\")]\n"
        "    pub fn entry(&mut self, key: Key) -> Entry<'_, Key, Value> {\n"
        "        // verification model of the cache: every lookup yields the harness-owned state\n"
        "        core::mem::forget(key);\n"
        "        let v: &mut Value = unsafe { &mut *(VERIF_STATE_PTR as *mut Value) };\n"
        "        Entry::Occupied(OccupiedEntry { value: v })\n"
        "    }\n"
        "    #[cfg(not(feature = \"verif_cache_model\"))]\n")
    s = s.replace(anchor, hook + anchor)
    s += ("\n/// Verification hook (overlay copy only): the value every `entry()` call resolves to.\n"
          "#[cfg(feature = \"verif_cache_model\")]\npub static mut VERIF_STATE_PTR: *mut u8 = core::ptr::null_mut();\n")
    open(lib, "w").write(s)
    # 3. Cargo.toml: drop unavailable deps, add the feature
    ct = os.path.join(dst, "Cargo.toml")
    c = open(ct).read()
    c = re.sub(r"\[dependencies\.sn_fake_clock\]\n(?:.+\n)*", "", c)
    c = re.sub(r"\[dev-dependencies\.rand\]\n(?:.+\n)*", "", c)
    c = re.sub(r"\[features\]\n(?:.+\n)*", "", c)
    c += "\n[features]\nverif_cache_model = []\nsn_fake_clock = []\n"
    open(ct, "w").write(c)
    for junk in ("Cargo.lock", ".cargo-ok", "Cargo.toml.orig"):
        try:
            os.remove(os.path.join(dst, junk))
        except FileNotFoundError:
            pass
